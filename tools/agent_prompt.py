#!/usr/bin/env python3
"""Write the task file for an independent sub-agent that seeds a property-breaking change.

usage: tools/agent_prompt.py C05 [C07 ...]   -> creates a scratch worktree /tmp/wt_<ID> of /repo HEAD and /tmp/prompt_<ID>.txt

The agent is given ONLY the property's text, a one-line summary of earlier seeded changes for that property (to avoid
duplicates) and its worktree; nothing from /verif (no check code, no design).
"""
import glob
import json
import os
import subprocess
import sys

VERIF = os.path.dirname(os.path.dirname(os.path.abspath(__file__)))

TEMPLATE = """You are helping to evaluate a verification harness for the Python library in the git worktree {wt}
(a robotics toolkit: SE(3) transform class `tm`, serial arms, Stewart platforms, a Numba port of Modern Robotics, RRT*
planning, a message router, a pretty-printer).  You do NOT see the harness.  Your job: make ONE realistic change to the
library source that BREAKS the property below while the library's own test-suite still passes, and demonstrate it.

PROPERTY {pid} - {title}
Statement: {statement}
Quantified over: {quant}
Why the existing tests cannot settle it: {why}
Code the property is anchored in: {files}

Rules
1. Work only inside {wt}.  Do not read or touch /repo or /verif.  Python: /venv/bin/python with PYTHONPATH={wt}.
2. The change must look like something a maintainer could plausibly commit (a refactor with a slip, an "optimisation", a
   wrong edge case, a stale cache, an off-by-one, an aliasing shortcut ...), not sabotage: no `if input == special: return wrong`,
   no random behaviour, no dependence on environment variables or on the call stack.  Keep it small (a few lines, one or two functions).
3. It must violate the property as stated for inputs INSIDE the quantified domain, and it should need a specific situation to
   manifest (a particular operation order, input class, configuration) - say which in your report.
4. Earlier contributors already made the following changes for this property; yours must differ in function, mechanism and trigger:
{earlier}
5. The library's test-suite must give the same result before and after your change.  Command (the machine is shared - keep the
   thread limits, and run the FULL suite at most twice in total):
     cd {wt} && NUMBA_NUM_THREADS=2 OMP_NUM_THREADS=2 OPENBLAS_NUM_THREADS=2 PYTHONPATH={wt} /venv/bin/python -m pytest -q -p no:cacheprovider --timeout=900 tests
   (5 socket tests in tests/test_interfaces_communications.py fail in this sandbox before and after; that is expected.)
   While developing, run only the relevant test files.
6. Deliverables, all in {wt}/_seeded/ :
   - patch.diff : `git diff -- basic_robotics` of your change (must apply with `git apply` on the unchanged worktree)
   - demo.py    : a plain script using only the public API that exits 0 on the UNCHANGED code and exits 1 (AssertionError with a
                  readable message) WITH your change; it checks the property itself (not your implementation detail), so it would
                  also pass for any other correct implementation.  Verify both outcomes yourself with `git apply -R _seeded/patch.diff` / `git apply _seeded/patch.diff` - do NOT use git stash (the stash is shared by all worktrees of the repository).
   - meta.json  : {{"property": "{pid}", "summary": "...", "needs_to_manifest": "...", "files_changed": [...], "tests_run": "..."}}
   Leave the worktree with the patch applied.
7. Final report: the diff, what it needs to manifest, the test-suite result before/after, the demo outcome before/after.
{hint}
"""

NEUTRAL = """You are helping to evaluate a verification harness for the Python library in the git worktree {wt}
(a robotics toolkit: SE(3) transform class `tm`, serial arms, Stewart platforms, a Numba port of Modern Robotics, RRT*
planning, a message router, a pretty-printer).  You do NOT see the harness.  The harness claims to decide the property below
by observing executions, and it must NEVER raise an alarm on code for which the property holds.  Your job: make realistic
changes to the library source that KEEP the property true but are likely to trip an over-strict or implementation-coupled
checker, and demonstrate that the property still holds.

PROPERTY {pid} - {title}
Statement: {statement}
Quantified over: {quant}
Code the property is anchored in: {files}

Rules
1. Work only inside {wt}.  Do not read or touch /repo or /verif.  Python: /venv/bin/python with PYTHONPATH={wt}.  Do NOT use
   `git stash` (it is shared between worktrees); use `git diff > p.diff`, `git apply -R p.diff`, `git apply p.diff`.
2. Make 3 to 6 independent behaviour-preserving (with respect to the PROPERTY) changes in the anchored code, each something a
   maintainer could plausibly commit.  Exploit every freedom the statement leaves, for example: rename or restructure PRIVATE
   attributes and helper methods (names starting with an underscore) and update all their uses; change internal representations,
   caching, evaluation order, loop structure, temporary copies; where several answers satisfy the statement (a different valid IK
   solution, another tie-breaking rule, the other sign of a rotation vector at exactly a half turn, a different but correct
   numerical route within the stated tolerances, different wording/whitespace of printed output, different exception messages)
   return a different valid one; change behaviour OUTSIDE the quantified domain (invalid inputs, out-of-range arguments).
   Public names, signatures and documented return shapes/types stay as they are.  Nothing may violate the property inside its
   quantified domain, and nothing may break any OTHER documented behaviour of the public API that a user relies on.
3. The library's test-suite must give the same result before and after.  Command (shared machine - keep the thread limits, run
   the FULL suite at most twice in total; 5 socket tests in tests/test_interfaces_communications.py fail before and after):
     cd {wt} && NUMBA_NUM_THREADS=2 OMP_NUM_THREADS=2 OPENBLAS_NUM_THREADS=2 PYTHONPATH={wt} /venv/bin/python -m pytest -q -p no:cacheprovider --timeout=900 tests
4. Deliverables in {wt}/_neutral/ :
   - patch.diff : `git diff -- basic_robotics` of all your changes together (must apply with `git apply` on the unchanged worktree)
   - demo.py    : a plain script using only the PUBLIC API that checks the property itself on a few hundred inputs from its
                  quantified domain and exits 0 both on the unchanged code and with your changes (verify both).
   - meta.json  : {{"property": "{pid}", "changes": ["one line per change: what and why it keeps the property"], "freedom_used": "...", "files_changed": [...], "tests_run": "..."}}
   Leave the worktree with the patch applied.
5. Final report: the list of changes, why each keeps the property, the test-suite result before/after, the demo outcome before/after.
{hint}
"""

HINTS = {
    "C17": "Hint: Numba honours NUMBA_BOUNDSCHECK=1 and NUMBA_DISABLE_JIT=1; compiled kernels have a `.py_func` attribute with the interpreted source.",
    "C02": "Hint: the reference implementation `modern_robotics` (1.1.1) is importable in /venv.",
}


def main():
    neutral = "--neutral" in sys.argv
    if neutral:
        sys.argv.remove("--neutral")
    props = {}
    for line in open(os.path.join(VERIF, "properties.jsonl")):
        p = json.loads(line)
        props[p["id"]] = p
    for pid in sys.argv[1:]:
        p = props[pid]
        wt = ("/tmp/wn_" if neutral else "/tmp/wt_") + pid
        if not os.path.exists(wt):
            subprocess.run(["git", "-C", "/repo", "worktree", "add", "--detach", wt, "HEAD"], check=True, stdout=subprocess.DEVNULL)
        earlier = []
        for m in sorted(glob.glob(os.path.join(VERIF, "seeded", pid + "_agent*", "meta.json"))):
            s = json.load(open(m)).get("summary") or ""
            earlier.append("   - " + s[:400].replace("\n", " "))
        txt = (NEUTRAL if neutral else TEMPLATE).format(wt=wt, pid=pid, title=p["title"], statement=p["statement"], quant=p["quantifier"]["text"], why=p["why_tests_cant"],
                              files=", ".join(p["anchors"].get("files", [])), earlier="\n".join(earlier) or "   (none)", hint=HINTS.get(pid, ""))
        pf = "/tmp/%s_%s.txt" % ("nprompt" if neutral else "prompt", pid)
        with open(pf, "w") as f:
            f.write(txt)
        print(pid, wt, pf)


if __name__ == "__main__":
    main()
