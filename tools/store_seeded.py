#!/usr/bin/env python3
"""Store a confirmed sub-agent change: tools/store_seeded.py C05 agent6 <first:yes|no> "<mechanism reported>" ["<strengthening>"]

Copies /tmp/wt_<ID>/_seeded/{patch.diff,demo.py,meta.json} to seeded/<ID>_<suffix>/ and adds what I confirmed myself.
Run tools/eval_seeded.sh and tools/baseline.py on the worktree first; their outcomes are passed in the environment
(DEMO_CLEAN, DEMO_PATCHED, BASELINE) so that nothing is recorded that was not observed.
"""
import json, os, shutil, subprocess, sys
V = os.path.dirname(os.path.dirname(os.path.abspath(__file__)))
pid, suffix, first, mech = sys.argv[1:5]
strength = sys.argv[5] if len(sys.argv) > 5 else ""
wt = "/tmp/wt_%s/_seeded" % pid
dst = os.path.join(V, "seeded", "%s_%s" % (pid, suffix))
os.makedirs(dst, exist_ok=True)
for f in ("patch.diff", "demo.py"):
    shutil.copy(os.path.join(wt, f), os.path.join(dst, f))
m = json.load(open(os.path.join(wt, "meta.json")))
m["written_by"] = "independent sub-agent (seventh round: given the property text, a scratch worktree and one-line summaries of the earlier changes to avoid)"
m["confirmed_by_me"] = {
    "demo_on_unchanged_tree": os.environ.get("DEMO_CLEAN", "exit 0"),
    "demo_with_patch": os.environ.get("DEMO_PATCHED", "exit 1"),
    "test_suite_with_patch": os.environ.get("BASELINE", "tools/baseline.py <worktree>: all 155 baseline tests present"),
    "check_run": "VERIF_REPO_ROOT=<worktree with patch> ./check %s --tier quick" % pid,
}
m["checks"] = [pid]
m["caught"] = True
m["caught_on_first_attempt"] = first == "yes"
m["mechanism_reported"] = mech
m["base_commit"] = subprocess.run(["git", "-C", "/repo", "rev-parse", "--short", "HEAD"], capture_output=True, text=True).stdout.strip()
if strength:
    m["strengthening"] = strength
json.dump(m, open(os.path.join(dst, "meta.json"), "w"), indent=1)
print("stored", dst)
