#!/usr/bin/env python3
"""Run the repository's pinned suite (guard off) and compare with BASELINE.json's stable_pass."""
import json, os, subprocess, sys, tempfile, xml.etree.ElementTree as ET
b = json.load(open("/root/.vp/BASELINE.json"))
out = tempfile.mktemp(suffix=".xml", dir="/dev/shm")
env = {k: v for k, v in os.environ.items() if k != "BASIC_ROBOTICS_VERIF"}
root = sys.argv[1] if len(sys.argv) > 1 else "/repo"
cmd = b["cmd"].replace("<file>", out).replace("cd /repo", "cd " + root)
env["PYTHONPATH"] = root
r = subprocess.run(cmd, shell=True, env=env, stdout=subprocess.PIPE, stderr=subprocess.STDOUT, text=True)
passed = set()
for tc in ET.parse(out).getroot().iter("testcase"):
    if not any(ch.tag in ("failure", "error", "skipped") for ch in tc):
        passed.add(tc.get("classname") + "::" + tc.get("name"))
os.remove(out)
want = set(b["stable_pass"])
missing = sorted(want - passed)
print("passed %d, baseline %d, missing %d, newly passing %d" % (len(passed), len(want), len(missing), len(passed - want)))
for m in missing:
    print("  MISSING", m)
sys.exit(1 if missing else 0)
