#!/bin/bash
# usage: tools/eval_neutral.sh C19 [check ids...] - behaviour-preserving change: demo must pass both ways and the checks must HOLD
p=$1; shift; checks=${@:-$p}
wt=/tmp/wn_$p
cd $wt
git diff -- basic_robotics > /tmp/ncur_$p.diff
if ! diff -q /tmp/ncur_$p.diff _neutral/patch.diff >/dev/null; then echo "$p WARNING: worktree diff differs from _neutral/patch.diff"; fi
PYTHONPATH=$wt timeout 2400 /venv/bin/python _neutral/demo.py > /tmp/ndemo_$p.log 2>&1; echo "$p demo with changes rc=$? $(tail -1 /tmp/ndemo_$p.log | cut -c1-160)"
cd /verif
for c in $checks; do echo "-- check $c"; VERIF_REPO_ROOT=$wt ./check $c --no-evidence 2>&1 | grep -v "KNOWN-FINDING" | grep "clause=\|HELD\|VIOLATED\|INCONCL" | cut -c1-330 | head -8; done
