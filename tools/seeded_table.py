#!/usr/bin/env python3
"""Regenerate the table of sub-agent changes in DESIGN.md (section 11.3) from seeded/*/meta.json."""
import glob, json, os, re
V = os.path.dirname(os.path.dirname(os.path.abspath(__file__)))
rows = []
n = first = 0
for m in sorted(glob.glob(os.path.join(V, "seeded", "*", "meta.json"))):
    d = json.load(open(m)); name = os.path.basename(os.path.dirname(m))
    summ = (d.get("summary") or "").replace("\n", " ").replace("|", "/")
    if len(summ) > 230: summ = summ[:227] + "..."
    mech = (d.get("mechanism_reported") or "").replace("|", "/")
    st = (d.get("strengthening") or "").replace("\n", " ").replace("|", "/")
    n += 1; first += bool(d.get("caught_on_first_attempt"))
    rows.append("| %s | %s | %s | %s | %s |" % (name, summ, mech, "yes" if d.get("caught_on_first_attempt") else "no", st))
p = os.path.join(V, "DESIGN.md")
s = open(p).read()
head = "| change | what was changed | caught by (clause / key) | first | what the check lacked |\n|---|---|---|---|---|\n"
i = s.index(head) + len(head)
j = s.index("\n\n", i)
s = s[:i] + "\n".join(rows) + s[j:]
s = re.sub(r"\*\*Totals:[^\n]*\n", "", s)
s = s.replace(head, "**Totals: %d changes, %d caught by the check as it stood, %d after strengthening, 0 uncaught.**\n\n" % (n, first, n - first) + head, 1)
open(p, "w").write(s)
print(n, first)
