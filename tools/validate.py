#!/usr/bin/env python3-vt
"""Validate MANIFEST.json and evidence/*.json against the schemas (run with python3-vt)."""
import glob, json, sys, os
import jsonschema
V = os.path.dirname(os.path.dirname(os.path.abspath(__file__)))
ok = True
def val(path, schema):
    global ok
    try:
        jsonschema.validate(json.load(open(path)), json.load(open(schema)))
        print("valid  ", path)
    except Exception as e:
        ok = False
        print("INVALID", path, str(e)[:500])
val(V + "/MANIFEST.json", "/root/.vp/MANIFEST.schema.json")
for p in sorted(glob.glob(V + "/evidence/*.json")):
    val(p, "/root/.vp/EVIDENCE.schema.json")
props = [json.loads(l) for l in open(V + "/properties.jsonl")]
m = json.load(open(V + "/MANIFEST.json"))
ids = {p["id"] for p in props}
claimed = {c["property_id"] for c in m["checks"]}
na = {c["property_id"] for c in m.get("not_applicable", [])}
if claimed | na != ids or claimed & na:
    ok = False; print("claimed/not_applicable do not partition the properties", sorted(ids - claimed - na), sorted(claimed & na))
sys.exit(0 if ok else 1)
