#!/usr/bin/env python3
"""Seed sweep: run every claimed check over several VERIF_SEED values (no evidence written) and summarise.
usage: tools/sweep.py [--tier quick|thorough] [--seeds 0-9] [--props C01,C02] [--jobs 1]"""
import argparse, json, os, subprocess, sys, time
V = os.path.dirname(os.path.dirname(os.path.abspath(__file__)))
ap = argparse.ArgumentParser()
ap.add_argument("--tier", default="quick")
ap.add_argument("--seeds", default="0-9")
ap.add_argument("--props", default="")
a = ap.parse_args()
lo, hi = (a.seeds.split("-") + [a.seeds])[:2]
seeds = range(int(lo), int(hi) + 1)
m = json.load(open(os.path.join(V, "MANIFEST.json")))
props = [c["property_id"] for c in m["checks"]]
if a.props:
    props = [p for p in props if p in a.props.split(",")]
bad = 0
for p in props:
    for s in seeds:
        env = dict(os.environ, VERIF_SEED=str(s))
        t0 = time.time()
        r = subprocess.run([os.path.join(V, "check"), p, "--tier", a.tier, "--no-evidence"], cwd=V, env=env, stdout=subprocess.PIPE,
                           stderr=subprocess.STDOUT, text=True)
        last = [l for l in r.stdout.splitlines() if l.split(" ")[0] in ("HELD", "VIOLATED", "INCONCLUSIVE")]
        print("%s seed=%d rc=%d %.0fs %s" % (p, s, r.returncode, time.time() - t0, last[-1][:160] if last else r.stdout[-200:]), flush=True)
        if r.returncode != 0:
            bad += 1
            for l in r.stdout.splitlines():
                if l.strip().startswith(("clause=", "INCONCLUSIVE", "KNOWN")):
                    print("    " + l.strip()[:300], flush=True)
print("sweep done: %d non-zero exits" % bad)
sys.exit(1 if bad else 0)
