#!/usr/bin/env python3
"""Re-point the 'fixed' entries of known_findings.json at the current /repo commits (after a history rewrite), by subject."""
import json, subprocess, sys
P = "/verif/known_findings.json"
d = json.load(open(P))
log = subprocess.run(["git", "-C", "/repo", "log", "--format=%h\t%s"], capture_output=True, text=True).stdout.splitlines()
by_subject = {l.split("\t", 1)[1]: l.split("\t", 1)[0] for l in log}
current = set(by_subject.values())
n = 0
for f in d["fixed"]:
    subj = f.get("subject")
    if not subj:
        r = subprocess.run(["git", "-C", "/repo", "show", "-s", "--format=%s", f["commit"]], capture_output=True, text=True)
        subj = r.stdout.strip() if r.returncode == 0 else None
    if not subj or subj not in by_subject:
        print("UNRESOLVED", f["property"], f["commit"], subj)
        continue
    f["subject"] = subj
    new = by_subject[subj]
    if new != f["commit"]:
        f["what"] = f["what"].replace(f["commit"], new)
        f["commit"] = new
        n += 1
json.dump(d, open(P, "w"), indent=1)
print("updated", n, "entries;", len(d["fixed"]), "fixed,", len(d["known"]), "known")
