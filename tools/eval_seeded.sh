#!/bin/bash
# usage: tools/eval_seeded.sh C06 [check ids...]  - verify demo both ways in the agent's worktree and run the named checks against it
p=$1; shift; checks=${@:-$p}
wt=/tmp/wt_$p
cd $wt
git diff -- basic_robotics > /tmp/cur_$p.diff
if ! diff -q /tmp/cur_$p.diff _seeded/patch.diff >/dev/null; then echo "$p WARNING: worktree diff differs from _seeded/patch.diff; resetting to the saved patch"; git checkout -- basic_robotics; git apply _seeded/patch.diff || exit 1; fi
git apply -R _seeded/patch.diff || exit 1
PYTHONPATH=$wt timeout 1200 /venv/bin/python _seeded/demo.py > /tmp/demo_clean_$p.log 2>&1; echo "$p demo clean rc=$?"
git apply _seeded/patch.diff || exit 1
PYTHONPATH=$wt timeout 1200 /venv/bin/python _seeded/demo.py > /tmp/demo_patched_$p.log 2>&1; echo "$p demo patched rc=$? $(tail -1 /tmp/demo_patched_$p.log | cut -c1-160)"
cd /verif
for c in $checks; do echo "-- check $c"; VERIF_REPO_ROOT=$wt ./check $c --no-evidence 2>&1 | grep "clause=\|HELD\|VIOLATED\|INCONCL" | cut -c1-250 | head -4; done
