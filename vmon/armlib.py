"""Arm descriptions (serialisable), construction of real Arm objects, and the reference model (C05-C08, C13)."""
import math
import os
import random as pyrandom

import numpy as np

from . import gen
from .common import repo_root
from .oracle import se3, urdf_sem

PI = math.pi
URDFS = ["irb_2400.urdf", "ur5.urdf", "puma_560.urdf", "ur_description/ur10.urdf", "ur_description/ur5.urdf"]


def urdf_path(rel):
    return os.path.join(repo_root(), "tests", "test_helpers", rel)


# ----------------------------------------------------------------------------- descriptions
def test6r_desc():
    L1, L2, L3, W = 4.5, 3.75, 3.75, 0.1
    axes = np.array([[0, 0, 1], [0, 1, 0], [0, 1, 0], [1, 0, 0], [0, 1, 0], [1, 0, 0]], dtype=float).T
    homes = np.array([[0, 0, 0], [0, 0, L1], [L2, 0, L1], [L2 + L3, 0, L1], [L2 + L3 + W, 0, L1], [L2 + L3 + 2 * W, 0, L1]], dtype=float).T
    S = np.zeros((6, 6))
    for i in range(6):
        S[:, i] = np.hstack((axes[:, i], np.cross(homes[:, i], axes[:, i])))
    return {"kind": "test6r", "S": S.tolist(), "q": homes.tolist(), "M": [L2 + L3 + 3 * W, 0, L1, 0, 0, 0],
            "lo": [-2 * PI] * 6, "hi": [2 * PI] * 6}


def random_desc(rng, nmin=1, nmax=7):
    n = int(rng.integers(nmin, nmax + 1))
    S = np.zeros((6, n))
    q = np.zeros((3, n))
    for i in range(n):
        w = gen.rand_unit(rng) if rng.random() < 0.6 else gen.axis(rng, gen.pick(rng, gen.AXIS_CLASSES[:6]))
        q[:, i] = rng.uniform(-1, 1, 3) + np.array([0, 0, 0.4 * i])
        S[:3, i] = w
        S[3:, i] = -np.cross(w, q[:, i])
    M = np.concatenate([q[:, -1] + rng.uniform(-0.5, 0.5, 3) * (rng.random() < 0.8), gen.rotvec(rng, ["zero", "generic2", "generic"])])
    k = rng.random()
    if k < 0.4:
        lo, hi = [-PI] * n, [PI] * n
    elif k < 0.8:
        lo = (-rng.uniform(0.5, 2 * PI, n)).tolist()
        hi = rng.uniform(0.5, 2 * PI, n).tolist()
    else:
        lo, hi = [-2 * PI] * n, [2 * PI] * n
    return {"kind": "random", "S": S.tolist(), "q": q.tolist(), "M": M.tolist(), "lo": lo, "hi": hi}


def urdf_desc(rel):
    return {"kind": "urdf", "file": rel}


def random_base(rng, identity_prob=0.3):
    if rng.random() < identity_prob:
        return [0.0] * 6
    return np.concatenate([rng.uniform(-3, 3, 3), gen.rotvec(rng, ["zero", "generic2", "generic", "pi-1e-3"])]).tolist()


# ----------------------------------------------------------------------------- reference model
class ArmModel:
    """B . prod exp([S_i] theta_i) . M  with everything kept in base-local coordinates."""

    def __init__(self, desc, base_taa):
        self.desc = desc
        if desc["kind"] == "urdf":
            ch = urdf_sem.Chain(urdf_path(desc["file"]))
            S, M = ch.screws()
            frames, _ = ch.joint_frames_home()
            self.S = S
            self.M = M
            self.J = frames                                    # joint home frames (base-local)
            self.base_offset = ch.base_offset()
            self.lo = np.array([-2 * PI if v is None else v for v in ch.lower])
            self.hi = np.array([2 * PI if v is None else v for v in ch.upper])
            self.names = ch.joint_names
        else:
            self.S = np.array(desc["S"], dtype=float)
            self.M = se3.taa_to_T(desc["M"])
            q = np.array(desc["q"], dtype=float)
            self.J = [se3.rp(np.eye(3), q[:, i]) for i in range(q.shape[1])]
            self.base_offset = np.eye(4)
            self.lo = np.array(desc["lo"], dtype=float)
            self.hi = np.array(desc["hi"], dtype=float)
        self.n = self.S.shape[1]
        self.M0 = self.M.copy()
        self.B = se3.taa_to_T(base_taa)
        self.theta = np.zeros(self.n)
        self.theta_known = True

    def clamp(self, th):
        return np.minimum(np.maximum(np.asarray(th, dtype=float), self.lo), self.hi)

    def S_global(self):
        return se3.Ad(self.B) @ self.S

    def pose(self, th=None):
        th = self.theta if th is None else th
        return self.B @ se3.poe_space(self.M, self.S, th)

    def joint_frame(self, i, th=None):
        th = self.theta if th is None else th
        return self.B @ se3.poe_space(self.J[i], self.S[:, :i + 1], th[:i + 1])

    def jac_space(self, th=None):
        th = self.theta if th is None else th
        return se3.jac_space(self.S_global(), th)

    def jac_body(self, th=None):
        return se3.Ad(se3.inv(self.pose(th))) @ self.jac_space(th)

    def in_band(self, th=None):
        th = self.theta if th is None else th
        a = np.abs(np.asarray(th, dtype=float))
        return bool(np.any((a > 0) & (a < 2e-6)))

    def reach_bound(self):
        """Upper bound of |tool position - base origin| over all joint vectors (revolute chain)."""
        pts = [J[:3, 3] for J in self.J] + [self.M[:3, 3]]
        d = np.linalg.norm(pts[0])
        for a, b in zip(pts[:-1], pts[1:]):
            d += np.linalg.norm(b - a)
        # axis offsets: distance of the points from the axes is covered by the polyline bound above plus the
        # perpendicular distance of each joint point to its own axis line (zero here: q lies on the axis)
        return float(d)


# ----------------------------------------------------------------------------- real objects
def build_arm(desc, base_taa, bm):
    """bm: dict with tm, Arm, loadArmFromURDF.  Returns the real Arm (constructed at the base for direct arms;
    URDF arms are loaded at identity and moved when a base is given)."""
    tm = bm["tm"]
    if desc["kind"] == "urdf":
        arm = bm["loadArmFromURDF"](urdf_path(desc["file"]))
        if np.any(np.asarray(base_taa) != 0):
            arm.move(tm(np.array(base_taa, dtype=float)))
        return arm
    S = np.array(desc["S"], dtype=float)
    q = np.array(desc["q"], dtype=float)
    arm = bm["Arm"](tm(np.array(base_taa, dtype=float)), S.copy(), tm(np.array(desc["M"], dtype=float)), q.copy(),
                    S[:3, :].copy())
    arm.setJointProperties(np.array(desc["lo"], dtype=float), np.array(desc["hi"], dtype=float))
    return arm


def load_bm():
    from .worker import import_target
    import_target()
    from .jitcache import enable_all
    enable_all()
    from basic_robotics.general import tm, fsr, Wrench
    from basic_robotics.kinematics import Arm, loadArmFromURDF
    return {"tm": tm, "fsr": fsr, "Wrench": Wrench, "Arm": Arm, "loadArmFromURDF": loadArmFromURDF}


def gen_theta(rng, model, kind=None):
    """Joint vector in [-2pi, 2pi]^n with mass on the limits, never in the (0, 2e-6) cut-off band."""
    n = model.n
    kind = kind or gen.pick(rng, ["inside", "inside", "inside", "on_limits", "outside", "mixed", "zero"])
    if kind == "zero":
        th = np.zeros(n)
    elif kind == "inside":
        th = rng.uniform(model.lo, model.hi)
    elif kind == "on_limits":
        th = np.where(rng.random(n) < 0.5, model.lo, model.hi)
        m = rng.random(n) < 0.4
        th = np.where(m, rng.uniform(model.lo, model.hi), th)
    elif kind == "outside":
        th = rng.uniform(-2 * PI, 2 * PI, n)
    else:
        th = rng.uniform(model.lo, model.hi)
        k = int(rng.integers(n))
        th[k] = float(rng.choice([model.lo[k] - 0.3, model.hi[k] + 0.3, model.lo[k], model.hi[k]]))
    th = np.where((np.abs(th) > 0) & (np.abs(th) < 1e-5), 0.0, th)
    return np.clip(th, -2 * PI, 2 * PI), kind
