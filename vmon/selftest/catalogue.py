"""Deliberate, test-suite-preserving breakages used to confirm that the monitors fire.

Three kinds: textual replacement (file/old/new), re-introduction of a repaired defect (revert = subject prefix of the fix
commit in /repo) and seeded changes written by independent sub-agents (patch = /verif/seeded/<id>/patch.diff)."""
import glob
import json
import os

MR = "basic_robotics/modern_robotics_numba/modern_high_performance.py"
FH = "basic_robotics/general/faser_high_performance.py"
PP = "basic_robotics/path_planning/pathplanner.py"
TM = "basic_robotics/general/faser_transform.py"
FG = "basic_robotics/general/faser_general.py"
BH = "basic_robotics/general/basic_helpers.py"
SC = "basic_robotics/general/faser_screw.py"
WR = "basic_robotics/general/faser_wrench.py"
ARM = "basic_robotics/kinematics/arm_model.py"
SP = "basic_robotics/kinematics/sp_model.py"
RB = "basic_robotics/kinematics/robot_model.py"
CC = "basic_robotics/interfaces/comms_core.py"
DS = "basic_robotics/utilities/disp.py"

MUTANTS = [
    # ---- C01 / C02 -------------------------------------------------------------------------------------------------
    dict(id="nearzero_1e-5", file=MR, props=["C01"], desc="NearZero threshold 1e-6 -> 1e-5",
         old="    return abs(z) < 1e-6\n", new="    return abs(z) < 1e-5\n"),
    dict(id="transinv_sign", file=MR, props=["C01", "C02"], desc="TransInv drops the minus sign of -R^T p",
         old="    rarr[0:3, 3] = -1 * tdot\n", new="    rarr[0:3, 3] = tdot\n"),
    dict(id="adjoint_blocks", file=MR, props=["C01", "C02"], desc="Adjoint puts [p]R in the upper-right block",
         old="    rarr[3:6, 0:3] = vs3 @ R\n", new="    rarr[0:3, 3:6] = vs3 @ R\n"),
    dict(id="log3_halfturn_branch", file=MR, props=["C01"], desc="MatrixLog3 half-turn: second branch uses 1 - R[1][1]",
         old="                  * np.array([R[0][1], 1 + R[1][1], R[2][1]]))", new="                  * np.array([R[0][1], 1 - R[1][1], R[2][1]]))"),
    dict(id="exp6_translation_coeff", file=MR, props=["C01", "C02"], desc="MatrixExp6: translation term scaled by 0.999999",
         old="(theta - np.sin(theta))* np.dot(omgmat, omgmat)", new="(theta - np.sin(theta)) * 0.99999 * np.dot(omgmat, omgmat)"),
    dict(id="log6_vterm", file=MR, props=["C01", "C02"], desc="MatrixLog6: omgmat/2 term has the wrong sign",
         old="        lterm = (np.eye(3) - omgmat / 2.0 +", new="        lterm = (np.eye(3) + omgmat / 2.0 +"),
    dict(id="jacobian_space_offbyone", file=MR, props=["C02", "C06"], desc="JacobianSpace loop uses thetalist[i] instead of [i-1]",
         old="        sSe3 = VecTose3(Slist[0:6, i-1] * thetalist[i - 1])", new="        sSe3 = VecTose3(Slist[0:6, i-1] * thetalist[i])"),
    dict(id="invdyn_drop_ad_term", file=MR, props=["C02", "C08"], desc="InverseDynamics drops the ad(V) A thetadot acceleration term",
         old="                       + np.dot(ad(Vi[:, i + 1]), Ai[:, i]) * dthetalist[i]", new="                       + 0 * np.dot(ad(Vi[:, i + 1]), Ai[:, i]) * dthetalist[i]"),
    dict(id="quintic_coeff", file=MR, props=["C02"], desc="QuinticTimeScaling coefficient 15 -> 14",
         old="    return 10 * (1.0 * t / Tf) ** 3 - 15 * (1.0 * t / Tf) ** 4 \\\n", new="    return 10 * (1.0 * t / Tf) ** 3 - 14 * (1.0 * t / Tf) ** 4 \\\n"),
    dict(id="ikinbody_tolerance_swap", file=MR, props=["C02"], desc="IKinBody tests the linear part against eomg",
         old="    err = Norm([Vb[0], Vb[1], Vb[2]]) > eomg \\\n          or Norm([Vb[3], Vb[4], Vb[5]]) > ev\n    while err and i < maxiterations:",
         new="    err = Norm([Vb[0], Vb[1], Vb[2]]) > ev \\\n          or Norm([Vb[3], Vb[4], Vb[5]]) > eomg\n    while err and i < maxiterations:"),
    # ---- C03 / C04 / C14 (tm) -------------------------------------------------------------------------------------
    dict(id="tm_set_no_refresh", file=TM, props=["C03"], desc="tm.set() forgets to rebuild the matrix",
         old="        self.TAA[ind] = val\n        self.TAAtoTM()\n        return self\n", new="        self.TAA[ind] = val\n        return self\n"),
    dict(id="tm_setquat_no_taa", file=TM, props=["C03"], desc="setQuat does not refresh the six-vector",
         old="        self.TM[0:3, 0:3] = R.from_quat(quaternion).as_matrix()\n        self.TMtoTAA()\n", new="        self.TM[0:3, 0:3] = R.from_quat(quaternion).as_matrix()\n"),
    dict(id="tm_setitem_slice_col", file=TM, props=["C03"], desc="__setitem__ with a (3,1) value skips the matrix refresh",
         old="        if isinstance(val, np.ndarray) and val.shape == ((3, 1)):\n            self.TAA[ind] = val\n",
         new="        if isinstance(val, np.ndarray) and val.shape == ((3, 1)):\n            self.TAA[ind] = val\n            return\n"),
    dict(id="tm_inv_transpose", file=TM, props=["C04", "C03"], desc="inv() uses the transpose of the homogeneous matrix",
         old="        TM = mr.TransInv(self.TM)\n        return tm(TM)", new="        TM = mr.TransInv(self.TM)\n        TM[0:3, 3] = -self.TM[0:3, 3]\n        return tm(TM)"),
    dict(id="tm_gtm_no_copy", file=TM, props=["C14"], desc="gTM() returns the internal matrix",
         old="        return np.copy(self.TM)\n", new="        return self.TM\n"),
    dict(id="tm_copy_shares_taa", file=TM, props=["C14"], desc="copy() shares the six-vector buffer",
         old="        copy.TAA = np.copy(self.TAA)\n", new="        copy.TAA = self.TAA\n"),
    dict(id="tm_rpy_order", file=TM, props=["C04"], desc="rpy constructor composes Rz Ry Rx instead of Rx Ry Rz (6-element form)",
         old="            temp_init =  tm([0, 0, 0, initializer_array[3],0, 0])\n            temp_init = temp_init @ tm([0, 0, 0, 0, initializer_array[4], 0])\n            temp_init = temp_init @ tm([0, 0, 0, 0, 0, initializer_array[5]])\n",
         new="            temp_init =  tm([0, 0, 0, 0, 0, initializer_array[5]])\n            temp_init = temp_init @ tm([0, 0, 0, 0, initializer_array[4], 0])\n            temp_init = temp_init @ tm([0, 0, 0, initializer_array[3],0, 0])\n"),
    dict(id="l2g_wrong_order", file=MR, props=["C04", "C03"], desc="LocalToGlobal composes rotations in the wrong order",
         old="    rod = so3ToVec(MatrixLog3(rodRefRod @ trod))", new="    rod = so3ToVec(MatrixLog3(trod @ rodRefRod))"),
    # ---- C12 -------------------------------------------------------------------------------------------------------
    dict(id="wrench_changeframe_no_transpose", file=WR, props=["C12"], desc="Wrench.changeFrame forgets the transpose of the adjoint",
         old="        self.data = frame_transition.adjoint().T @ self.data", new="        self.data = frame_transition.adjoint() @ self.data"),
    dict(id="screw_add_mixed_frames", file=SC, props=["C12"], desc="Screw.__add__ skips the frame change of the right operand",
         old="                local_frame_other = other_object.copy().changeFrame(self.frame_applied)\n                return Screw(self.data + local_frame_other.data, self.frame_applied.copy())",
         new="                local_frame_other = other_object.copy()\n                return Screw(self.data + local_frame_other.data, self.frame_applied.copy())"),
    dict(id="screw_truediv_np", file=SC, props=["C12"], desc="Screw / k multiplies for NumPy float scalars subclassing float",
         old="            return Screw(self.data / other_object, self.frame_applied.copy())\n        return self.data / other_object",
         new="            return Screw(self.data / other_object, self.frame_applied.copy())\n        return self.data * other_object"),
    # ---- C05 - C08, C13 (arm) -------------------------------------------------------------------------------------
    dict(id="fk_no_clamp_upper", file=ARM, props=["C05"], desc="thetaProtector does not clamp the upper limit",
         old="            theta[np.where(theta>self.joint_maxs[0:theta_len])] = (\n                    self.joint_maxs[np.where(theta>self.joint_maxs[0:theta_len])])\n", new=""),
    dict(id="move_keeps_old_base", file=ARM, props=["C05"], desc="initialize() forgets to store the new base pose",
         old="        self._base_pos_global = base_pos_global.copy()\n\n    \"\"\"\n    Kinematics", new="\n    \"\"\"\n    Kinematics"),
    dict(id="jacobian_body_wrong_frame", file=ARM, props=["C06", "C05"], desc="jacobianBody computes the body screws with the tool pose instead of its inverse",
         old="            fmr.Adjoint(self._end_effector_home.inv().gTM()) @ self.screw_list)\n        return fmr.JacobianBody",
         new="            fmr.Adjoint(self._end_effector_home.gTM()) @ self.screw_list)\n        return fmr.JacobianBody"),
    dict(id="jacobian_eetrans_keeps_rotation", file=ARM, props=["C06"], desc="jacobianEETrans forgets to zero the rotation of the frame",
         old="        end_effector_temp[3:6] = np.zeros(3)\n", new=""),
    dict(id="linkmass_skips_last", file=ARM, props=["C06"], desc="staticForcesWithLinkMasses skips the last link's weight",
         old="        for i in range(self.num_dof, 0, -1):\n            link_mass_cg", new="        for i in range(self.num_dof - 1, 0, -1):\n            link_mass_cg"),
    dict(id="ik_success_without_fk", file=ARM, props=["C07", "C05"], desc="constrainedIK returns before storing the solution state",
         old="            if self.fail_count != 0:\n                print('Success + ' + str(self.fail_count) + ' failures')\n            self.FK(theta_list)\n",
         new="            if self.fail_count != 0:\n                print('Success + ' + str(self.fail_count) + ' failures')\n"),
    dict(id="ik_constrained_no_clamp_low", file=FH, props=["C07"], desc="IKinSpaceConstrained does not clamp at the lower limit",
         old="            if theta_list[j] < joint_mins[j]:\n                theta_list[j] = joint_mins[j]\n", new=""),
    dict(id="massmatrix_skips_first_link", file=ARM, props=["C08"], desc="Arm.massMatrix skips link 0",
         old="        for i in range(len(theta)):\n            Ji = self.jacobianLink(i, theta)", new="        for i in range(1, len(theta)):\n            Ji = self.jacobianLink(i, theta)"),
    dict(id="coriolis_ignores_grav_arg", file=ARM, props=["C08"], desc="coriolisGravity ignores its gravity argument",
         old="        h = self.inverseDynamics(theta, theta_dot, 0*theta, grav, np.zeros((6, 1)))[0]", new="        h = self.inverseDynamics(theta, theta_dot, 0*theta, None, np.zeros((6, 1)))[0]"),
    dict(id="urdf_rpy_order", file=ARM, props=["C13"], desc="URDF joint origin composes roll before yaw",
         old="                cg_origin_tm = cg_origin_tm @ tm([0, 0, 0, 0, 0, cg_origin_rpy[2]])\n                cg_origin_tm = cg_origin_tm @ tm([0, 0, 0, 0, cg_origin_rpy[1], 0])\n                #cg_origin_rpy[0], cg_origin_rpy[1], cg_origin_rpy[2]\n                cg_origin_tm = cg_origin_tm @ tm([0, 0, 0, cg_origin_rpy[0], 0, 0])",
         new="                cg_origin_tm = cg_origin_tm @ tm([0, 0, 0, cg_origin_rpy[0], 0, 0])\n                cg_origin_tm = cg_origin_tm @ tm([0, 0, 0, 0, cg_origin_rpy[1], 0])\n                #cg_origin_rpy[0], cg_origin_rpy[1], cg_origin_rpy[2]\n                cg_origin_tm = cg_origin_tm @ tm([0, 0, 0, 0, 0, cg_origin_rpy[2]])"),
    dict(id="urdf_default_axis_z", file=ARM, props=["C13"], desc="URDF default axis (0,0,1) instead of (1,0,0)",
         old="        new_element.axis = np.array([1.0, 0.0, 0.0])", new="        new_element.axis = np.array([0.0, 0.0, 1.0])"),
    dict(id="urdf_limits_swapped", file=ARM, props=["C13"], desc="URDF upper limit read from 'lower'",
         old="                new_element.joint_limits[1] = child.get('upper')", new="                new_element.joint_limits[1] = child.get('lower')"),
    # ---- C09 - C11 (sp) ---------------------------------------------------------------------------------------------
    dict(id="sp_ik_stale_lengths", file=SP, props=["C09", "C10"], desc="_IKHelper returns lengths but does not store them",
         old="        self.lengths, self._bottom_joints_space, self._top_joints_space = fmr.SPIKinSpace(",
         new="        _unused, self._bottom_joints_space, self._top_joints_space = fmr.SPIKinSpace("),
    dict(id="sp_move_keeps_top", file=SP, props=["C10", "C09"], desc="move() computes the relative transform after replacing the base",
         old="        self._current_plate_transform_local = fsr.globalToLocal(self.getBottomT(), self.getTopT())\n        self._base_pos_global = new_pos.copy()\n",
         new="        self._base_pos_global = new_pos.copy()\n        self._current_plate_transform_local = fsr.globalToLocal(self.getBottomT(), self.getTopT())\n"),
    dict(id="sp_leglimit_only_min", file=SP, props=["C10"], desc="_legLengthConstraint forgets the upper limit",
         old="        if(np.any(self.lengths < self.leg_ext_min) or np.any(self.lengths > self.leg_ext_max)):", new="        if(np.any(self.lengths < self.leg_ext_min)):"),
    dict(id="sp_invjac_uses_top_joint_wrong", file=SP, props=["C11"], desc="inverseJacobian moment arm taken from the plate origin instead of the joint",
         old="            qi = self._bottom_joints_space[:, i]\n", new="            qi = self._bottom_joints_space[:, i] - self.getBottomT()[0:3].flatten()\n"),
    dict(id="sp_carrymass_skips_top_plate", file=SP, props=["C11"], desc="carryMassCalc forgets the top plate weight",
         old="        wrench = wrench + fsr.makeWrench(self.getTopT(),\n            self._top_plate_mass, self.grav)\n        \n", new="        \n"),
    dict(id="sp_sumwrench_at_bottom_joint", file=SP, props=["C11"], desc="sumActuatorWrenches sign of the unit vector flipped",
         old="            unit_vector = fmr.Normalize(self._bottom_joints_space[:, i]-self._top_joints_space[:, i])", new="            unit_vector = fmr.Normalize(self._top_joints_space[:, i]-self._bottom_joints_space[:, i])"),
    # ---- C15 / C16 ---------------------------------------------------------------------------------------------------
    dict(id="obstruction_drop_axis", file=PP, props=["C15"], desc="obstruction: delete the x-cross-z separating-axis test",
         old="""            if (abs(midpoint_ab[0] * L[2] - midpoint_ab[2] * L[0]) >
                (extents[0] * abs_obstruct[2] + extents[2] * abs_obstruct[0])):
                continue
""", new=""),
    dict(id="obstruction_strict", file=PP, props=["C15"], desc="obstruction: '>' -> '>=' on one slab test (touching no longer counts)",
         old="            if abs(midpoint_ab[1]) > extents[1] + abs_obstruct[1]:", new="            if abs(midpoint_ab[1]) >= extents[1] + abs_obstruct[1]:"),
    dict(id="obstruction_first_only", file=PP, props=["C15", "C16"], desc="obstruction: gives up after the first box",
         old="                (extents[0] * abs_obstruct[1] + extents[1] * abs_obstruct[0])):\n                continue\n            return True",
         new="                (extents[0] * abs_obstruct[1] + extents[1] * abs_obstruct[0])):\n                return False\n            return True"),
    dict(id="rrt_skip_collision_in_rewire", file=PP, props=["C16"], desc="choose-parent loop ignores the collision detector",
         old="                        nearest[j].object.getCost() < new_node.cost and not\n                        collisionDetector(new_node, nearest[j].object)):", new="                        nearest[j].object.getCost() < new_node.cost):"),
    dict(id="rrt_max_distance_ignored", file=PP, props=["C16"], desc="acceptance loop ignores the maximum distance",
         old="            while (dist > self.maximum_distance or\n                    dist < self.minimum_distance or", new="            while (dist < self.minimum_distance or"),
    dict(id="rrt_cost_without_parent", file=PP, props=["C16"], desc="rewired node keeps the old cost",
         old="                    new_node.cost = (distanceFunction(\n                            new_node.getPosition(), nearest[j].object.getPosition()) +\n                            nearest[j].object.getCost())\n                    new_node.setParent(nearest[j].object)",
         new="                    new_node.setParent(nearest[j].object)"),
    # ---- C18 ---------------------------------------------------------------------------------------------------------
    dict(id="lookat_x_axis", file=FG, props=["C18"], desc="lookAt builds the frame with x and y swapped",
         old="    R2[0:3, 0:3] = np.array([xax, yax, zax]).T\n    R2[0:3, 3] = va\n    try:", new="    R2[0:3, 0:3] = np.array([yax, xax, zax]).T\n    R2[0:3, 3] = va\n    try:"),
    dict(id="ikpath_offbyone", file=FG, props=["C18"], desc="IKPath divides by steps instead of steps-1",
         old="    delta = (goal.gTAA() - initial.gTAA())/(steps - 1)", new="    delta = (goal.gTAA() - initial.gTAA())/(steps)"),
    dict(id="anglemod_array_only_first", file=BH, props=["C18"], desc="angleMod on arrays wraps with 2*pi but only when positive",
         old="    for i in range(np.size(rad)):\n        if abs(rad[i]) > 2 * np.pi:", new="    for i in range(np.size(rad)):\n        if rad[i] > 2 * np.pi:"),
    dict(id="arcgap_linear", file=FG, props=["C18"], desc="closeArcGap composes on the wrong side",
         old="    xf = origin_point @ TAAtoTM(return_transform)\n", new="    xf = tm(TAAtoTM(return_transform)) @ origin_point\n"),
    # ---- C19 ---------------------------------------------------------------------------------------------------------
    dict(id="comms_forward_rule_twice", file=CC, props=["C19"], desc="setForwardData appends the destination even when already present",
         old="            if output_com not in self.forwarding[input_name]:\n                self.forwarding[input_name].append(output_com)\n                return True\n            return False",
         new="            self.forwarding[input_name].append(output_com)\n            return True"),
    dict(id="comms_delete_reports_true", file=CC, props=["C19"], desc="deleteForwardingRule reports success for a rule that does not exist",
         old="            self.forwarding[input_name].remove(output_com)\n            return True\n        return False", new="            self.forwarding[input_name].remove(output_com)\n            return True\n        return input_name in self.forwarding"),
    dict(id="comms_spin_source_twice", file=CC, props=["C19"], desc="_single_spin reads a source twice when the endpoint also has a sink",
         old="            if name in self.output_functions or name in self.forwarding:\n                self.getData(name)",
         new="            if name in self.output_functions or name in self.forwarding:\n                self.getData(name)\n            if name in self.output_functions and name in self.input_functions:\n                this_com.sendData(self.input_functions[name][0]())"),
    # ---- C20 ---------------------------------------------------------------------------------------------------------
    dict(id="disp_nd_minus_one", file=DS, props=["C20"], desc="dispa formats 3-D blocks with one decimal fewer",
         old="            strr += dispa(matrix[i,], nd = nd, new = False)\n        strr += (t_bl + t_bar + \"═ \" + title + \" END ═\" + t_bar + \"╝\\n\")\n\n    #Prints 4D",
         new="            strr += dispa(matrix[i,], nd = max(nd - 1, 0), new = False)\n        strr += (t_bl + t_bar + \"═ \" + title + \" END ═\" + t_bar + \"╝\\n\")\n\n    #Prints 4D"),
    dict(id="disp_drops_last_row_4d", file=DS, props=["C20"], desc="4-D arrays: last block skipped",
         old="        for i in range(shape[0]):\n            strr += dispa(matrix[i,], nd = nd, title = title + \" d:\" + str(i), pdims = pdims, new = False)",
         new="        for i in range(shape[0] - (1 if shape[0] > 3 else 0)):\n            strr += dispa(matrix[i,], nd = nd, title = title + \" d:\" + str(i), pdims = pdims, new = False)"),
    dict(id="disp_noprint_prints_lists", file=DS, props=["C20"], desc="disp prints even with noprint for LaTeX mode",
         old="    if not noprint:\n        print(matstr)", new="    if not noprint or mode != 0:\n        print(matstr)"),
    dict(id="disp_empty_list_crash", file=DS, props=["C20"], desc="printTFlist divides by the number of transforms",
         old="    nTF = len(matrix)\n    title_len = len(title)\n", new="    nTF = len(matrix)\n    title_len = len(title) // max(nTF, 0) if nTF == 0 else len(title)\n"),
    # ---- C17 ---------------------------------------------------------------------------------------------------------
    dict(id="fkjoint_slice_oob", file=ARM, props=["C17"], desc="FKJoint passes one screw column fewer than angles",
         old="            self.screw_list[0:6, 0:i+1], theta[0:i+1]))\n        return end_effector_pos\n\n    #Converted to python - Liam\n    def IK",
         new="            self.screw_list[0:6, 0:i], theta[0:i+1]))\n        return end_effector_pos\n\n    #Converted to python - Liam\n    def IK"),
    dict(id="spik_loop_7", file=FH, props=["C17"], desc="SPIKinSpace norm reads element 3 of a 3-vector via Norm6",
         old="        t_len = Norm(top_joint_locations[0:3, i] - bottom_joint_locations[0:3, i])", new="        t_len = Norm6(np.concatenate((top_joint_locations[0:3, i] - bottom_joint_locations[0:3, i], np.zeros(2))))"),
]

# re-introduce every repaired defect
REVERTS = [
    ("C01", "fix: MatrixLog3/MatrixLog6 lose"), ("C04", "fix: tm([position, rotation])"), ("C12", "fix: Screw/Wrench 'a - s'"),
    ("C18", "fix: mirror() reflected"), ("C18", "fix: tmInterpMidpoint halved"), ("C18", "fix: tm.angleMod wrapped"),
    ("C02", "fix: ForwardDynamicsTrajectory used"), ("C02", "fix: SimulateControl plotted"), ("C02", "fix: ProjectToSO3 raised"),
    ("C02", "fix: Normalize divided"), ("C05", "fix: Arm() transformed"), ("C05", "fix: joint home frames"),
    ("C05", "fix: setArbitraryHome/restoreOriginalEE"), ("C06", "fix: jacobianBody kept"), ("C05", "fix: Arm.move() silently"),
    ("C07", "fix: Arm IK compared"), ("C05", "fix: Arm.IK(protect=True)"), ("C05", "fix: getJointTransforms() clamped"),
    ("C06", "fix: numericalJacobian returned"), ("C08", "fix: inverseDynamicsEMR unpacked"), ("C13", "fix: loadArmFromURDF crashed"),
    ("C19", "fix: Comms.getData forwarded"), ("C07", "fix: IKFree reported"), ("C17", "fix: FKLink passed"),
    ("C09", "fix: spinCustom left the Newton"), ("C09", "fix: SPFKinSpaceR stopped"), ("C09", "fix: SP fsolve forward"),
    ("C10", "fix: spinCustom deformed"), ("C10", "fix: SP force/Jacobian queries"), ("C10", "fix: the two SP forward-kinematics"),
    ("C10", "fix: SP.FK kept"), ("C16", "fix: progressBar divided"),
    ("C14", "fix: tm.gPos() returned"), ("C14", "fix: all default-constructed Screws"),
    ("C11", "fix: SP body-frame statics"), ("C06", "fix: numericalJacobian differentiates"), ("C14", "fix: adjustRotationToMidpoint(mode=1)"), ("C14", "fix: transformWrenchFrame converted"), ("C05", "fix: jacobianEETrans zeroed"), ("C03", "fix: MatrixLog3 amplified"), ("C10", "fix: spinCustom left the joint-deflection"), ("C07", "fix: IKinSpaceConstrained accepted a start"), ("C01", "fix: MatrixLog3 half-turn formulas lost"), ("C08", "fix: inverseDynamicsEMR / forwardDynamics raised"),
]
# not in the list: "fix: Arm frame bookkeeping" - the 3e-7 rad it repaired came from the logarithm's half-turn conditioning, which the later
# MatrixLog3 repairs removed at the root: reverse-applying it no longer changes any pose (an equivalent mutant);
# "fix: free IK reported success for a vector" - one event per 6e5 solves, out of the quick tier's reach;
# "fix: Newton FK of the Stewart platform used Euler-angle" - the old kernel cycles on ~2e-4 of the poses in one corner of the geometry
# domain (radius ratio 0.3, spacings > 30 deg) and on none elsewhere (0 of 3e4 scanned): found and re-found by the thorough tier only.
for prop, subj in REVERTS:
    MUTANTS.append(dict(id="revert:" + subj[5:40].strip().replace(" ", "_"), revert=subj, props=[prop], desc="re-introduces the defect repaired by '%s...'" % subj))

# seeded changes written by independent sub-agents
_here = os.path.dirname(os.path.dirname(os.path.dirname(os.path.abspath(__file__))))
for meta in sorted(glob.glob(os.path.join(_here, "seeded", "*", "meta.json"))):
    m = json.load(open(meta))
    d = os.path.dirname(meta)
    MUTANTS.append(dict(id="seeded:" + os.path.basename(d), patch=os.path.join(d, "patch.diff"), props=m.get("checks", [m["property"]]),
                        desc="sub-agent: " + m.get("summary", "")))

# behaviour-preserving change sets written by independent sub-agents (the property still holds: the checks must stay silent)
NEUTRAL_CHECKS = {"C03": ["C03", "C04", "C14", "C18"], "C05": ["C05", "C06", "C07", "C08"],   # not C13: the set clips with np.clip, which turns the NaN limits of a bound-less <limit> into NaN joints (a real C13 break)
                   "C07": ["C07", "C05", "C17"], "C09": ["C09", "C10", "C11"],
                  "C10": ["C10", "C09", "C11"], "C12": ["C12", "C14", "C11"], "C14": ["C14", "C03", "C12", "C05"], "C16": ["C16", "C15"],
                  "C19": ["C19"], "C20": ["C20"],
                  "C01": ["C01", "C03", "C17"],   # not C02: the set replaces the 1e-6 cut-off by the true exponential, 1e-7 away from the reference (a real C02 break)
                   "C02": ["C02", "C01", "C08", "C17"], "C04": ["C04", "C03", "C14", "C18"], "C06": ["C06", "C05", "C07", "C17"],
                  "C08": ["C08", "C02", "C14", "C17"], "C11": ["C11", "C10", "C09", "C12"], "C13": ["C13", "C05", "C06"], "C15": ["C15", "C16"],
                  "C17": ["C17", "C01", "C02", "C09", "C05"], "C18": ["C18", "C14", "C04", "C10"]}
for meta in sorted(glob.glob(os.path.join(_here, "neutral", "*", "meta.json"))):
    d = os.path.dirname(meta)
    pid = os.path.basename(d)
    MUTANTS.append(dict(id="neutral:" + pid, patch=os.path.join(d, "patch.diff"), props=NEUTRAL_CHECKS.get(pid, [pid]), expect="hold",
                        desc="sub-agent, behaviour-preserving: " + "; ".join(json.load(open(meta)).get("changes", []))[:300]))
