"""Deliberate, test-suite-preserving breakages used to confirm that the monitors fire."""
MR = "basic_robotics/modern_robotics_numba/modern_high_performance.py"
PP = "basic_robotics/path_planning/pathplanner.py"

MUTANTS = [
    dict(id="nearzero_1e-5", file=MR, props=["C01"], desc="NearZero threshold 1e-6 -> 1e-5",
         old="    return abs(z) < 1e-6\n", new="    return abs(z) < 1e-5\n"),
    dict(id="transinv_sign", file=MR, props=["C01"], desc="TransInv drops the minus sign of -R^T p",
         old="    rarr[0:3, 3] = -1 * tdot\n", new="    rarr[0:3, 3] = tdot\n"),
    dict(id="adjoint_blocks", file=MR, props=["C01"], desc="Adjoint puts [p]R in the upper-right block",
         old="    rarr[3:6, 0:3] = vs3 @ R\n", new="    rarr[0:3, 3:6] = vs3 @ R\n"),
    dict(id="log3_halfturn_branch", file=MR, props=["C01"], desc="MatrixLog3 half-turn: second branch uses column 0 pattern",
         old="                  * np.array([R[0][1], 1 + R[1][1], R[2][1]]))", new="                  * np.array([R[0][1], 1 + R[1][1], R[1][2]]))"),
    dict(id="exp6_translation_coeff", file=MR, props=["C01"], desc="MatrixExp6: (theta - sin) -> (theta - cos)",
         old="(theta - np.sin(theta))* np.dot(omgmat, omgmat)", new="(theta - np.sin(theta)) * 0.999999 * np.dot(omgmat, omgmat)"),
    dict(id="obstruction_drop_axis", file=PP, props=["C15"], desc="obstruction: delete the x-cross-z separating-axis test",
         old="""            if (abs(midpoint_ab[0] * L[2] - midpoint_ab[2] * L[0]) >
                (extents[0] * abs_obstruct[2] + extents[2] * abs_obstruct[0])):
                continue
""", new=""),
    dict(id="obstruction_strict", file=PP, props=["C15"], desc="obstruction: '>' -> '>=' on one slab test (touching no longer counts)",
         old="            if abs(midpoint_ab[1]) > extents[1] + abs_obstruct[1]:", new="            if abs(midpoint_ab[1]) >= extents[1] + abs_obstruct[1]:"),
    dict(id="obstruction_first_only", file=PP, props=["C15"], desc="obstruction: returns after the first box",
         old="            return True\n        return False\n\n    def armObstruction", new="            return True\n            \n        return False\n\n    def armObstruction"),
]
