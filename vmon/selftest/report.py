"""python -m vmon.selftest.report : results.json -> RESULTS.md"""
import json
import os

here = os.path.dirname(os.path.abspath(__file__))
r = json.load(open(os.path.join(here, "results.json")))
lines = ["# Mutation / seeded-change self-test results", "",
         "Produced by `python -m vmon.selftest.driver` (quick tier, VERIF_SEED=0, scratch copy of the package under /dev/shm).",
         "`fired` = the check exited 1 with a VIOLATION line; `first` = first reported mechanism.", "",
         "| change | what it does | check | fired | first mechanism reported | s |", "|---|---|---|---|---|---|"]
tot = caught = 0
missed = []
for mid in sorted(r):
    e = r[mid]
    for prop, res in sorted(e["results"].items()):
        tot += 1
        caught += bool(res["fired"])
        if not res["fired"]:
            missed.append((mid, prop, res.get("rc")))
        first = (res.get("first") or [""])[0]
        first = first.split("key=")[1].split(" ")[0] if "key=" in first else (res.get("tail", "")[-80:].replace("\n", " ") if not res["fired"] else "")
        lines.append("| %s | %s | %s | %s | %s | %s |" % (mid, e["desc"].replace("|", "/")[:110], prop, "yes" if res["fired"] else "**NO** (rc=%s)" % res.get("rc"), first[:70], res.get("wall_s")))
lines += ["", "%d of %d (change, check) pairs fired." % (caught, tot), ""]
if missed:
    lines.append("Not fired: " + ", ".join("%s/%s" % (m, p) for m, p, _ in missed))
open(os.path.join(here, "RESULTS.md"), "w").write("\n".join(lines) + "\n")
print("%d/%d fired; missed: %s" % (caught, tot, missed))
