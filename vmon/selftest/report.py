"""python -m vmon.selftest.report : results.json -> RESULTS.md"""
import json
import os

here = os.path.dirname(os.path.abspath(__file__))
r = json.load(open(os.path.join(here, "results.json")))
lines = ["# Mutation / seeded-change self-test results", "",
         "Produced by `python -m vmon.selftest.driver` (quick tier, VERIF_SEED=0, scratch copy of the package under /dev/shm).",
         "`fired` = the check exited 1 with a VIOLATION line; `first` = first reported mechanism.", "",
         "| change | what it does | check | fired | first mechanism reported | s |", "|---|---|---|---|---|---|"]
tot = caught = 0
missed = []
neutral = []
for mid in sorted(r):
    e = r[mid]
    if e.get("expect") == "hold":
        for prop, res in sorted(e["results"].items()):
            neutral.append((mid, prop, res.get("rc"), res.get("wall_s"), e["desc"]))
        continue
    for prop, res in sorted(e["results"].items()):
        tot += 1
        caught += bool(res["fired"])
        if not res["fired"]:
            missed.append((mid, prop, res.get("rc")))
        first = (res.get("first") or [""])[0]
        first = first.split("key=")[1].split(" ")[0] if "key=" in first else (res.get("tail", "")[-80:].replace("\n", " ") if not res["fired"] else "")
        lines.append("| %s | %s | %s | %s | %s | %s |" % (mid, e["desc"].replace("|", "/")[:110], prop, "yes" if res["fired"] else "**NO** (rc=%s)" % res.get("rc"), first[:70], res.get("wall_s")))
lines += ["", "%d of %d (change, check) pairs fired." % (caught, tot), ""]
if missed:
    lines.append("Not fired: " + ", ".join("%s/%s" % (m, p) for m, p, _ in missed))
lines += ["", "## Behaviour-preserving change sets (the property still holds: every check must exit 0)", "",
          "| change set | check | exit code | s |", "|---|---|---|---|"]
bad = [x for x in neutral if x[2] != 0]
for mid, prop, rc, w, desc in neutral:
    lines.append("| %s | %s | %s | %s |" % (mid, prop, "0 (held)" if rc == 0 else "**%s**" % rc, w))
lines += ["", "%d of %d (change set, check) pairs stayed silent." % (len(neutral) - len(bad), len(neutral)), ""]
open(os.path.join(here, "RESULTS.md"), "w").write("\n".join(lines) + "\n")
print("%d/%d fired; missed: %s; neutral alarms: %s" % (caught, tot, missed, [(m, p, rc) for m, p, rc, _, _ in neutral if rc != 0]))
