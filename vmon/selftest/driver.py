"""Mutation self-test driver.

python -m vmon.selftest.driver [--only ID[,ID]] [--props C01,C15] [--tier quick]
For every mutant in catalogue.py: copy the repository's package to a scratch directory under /dev/shm,
apply the textual replacement, run the named quick checks against it (VERIF_REPO_ROOT, no evidence written),
record whether the check fired (exit 1 + VIOLATION), remove the scratch copy and its Numba cache.
"""
import argparse
import json
import os
import shutil
import subprocess
import sys
import tempfile
import time

from ..common import PY, VERIF, jit_source_hash


def make_copy(src="/repo"):
    d = tempfile.mkdtemp(prefix="vmut_", dir="/dev/shm")
    shutil.copytree(os.path.join(src, "basic_robotics"), os.path.join(d, "basic_robotics"),
                    ignore=shutil.ignore_patterns("__pycache__"))
    if os.path.isdir(os.path.join(src, "tests")):
        shutil.copytree(os.path.join(src, "tests"), os.path.join(d, "tests"), ignore=shutil.ignore_patterns("__pycache__"))
    return d


def apply(root, mut):
    if "revert" in mut:
        log = subprocess.run(["git", "-C", "/repo", "log", "--format=%h\t%s"], capture_output=True, text=True).stdout.splitlines()
        hits = [l.split("\t")[0] for l in log if l.split("\t", 1)[1].startswith(mut["revert"])]
        if len(hits) != 1:
            raise RuntimeError("mutant %s: %d commits match %r" % (mut["id"], len(hits), mut["revert"]))
        diff = subprocess.run(["git", "-C", "/repo", "show", "--format=", hits[0], "--", "basic_robotics"], capture_output=True, text=True).stdout
        r = subprocess.run(["patch", "-R", "-p1", "-s", "--no-backup-if-mismatch", "-d", root], input=diff, text=True, capture_output=True)
        if r.returncode != 0:
            # later fixes touch the same lines: let git do a three-way revert in a throw-away worktree and copy the result
            wt = tempfile.mkdtemp(prefix="vmutwt_", dir="/dev/shm")
            os.rmdir(wt)
            try:
                subprocess.run(["git", "-C", "/repo", "worktree", "add", "-q", "--detach", wt, "HEAD"], check=True, capture_output=True)
                rr = subprocess.run(["git", "-C", wt, "revert", "--no-commit", hits[0]], capture_output=True, text=True)
                if rr.returncode != 0:
                    raise RuntimeError("mutant %s: cannot be re-introduced alone (later fixes changed the same lines): %s" % (mut["id"], rr.stderr[-200:]))
                shutil.rmtree(os.path.join(root, "basic_robotics"))
                shutil.copytree(os.path.join(wt, "basic_robotics"), os.path.join(root, "basic_robotics"), ignore=shutil.ignore_patterns("__pycache__"))
            finally:
                subprocess.run(["git", "-C", "/repo", "worktree", "remove", "--force", wt], capture_output=True)
                subprocess.run(["git", "-C", "/repo", "worktree", "prune"], capture_output=True)
        return
    if "patch" in mut:
        r = subprocess.run(["patch", "-p1", "-s", "-d", root], input=open(mut["patch"]).read(), text=True, capture_output=True)
        if r.returncode != 0:
            raise RuntimeError("mutant %s: patch failed: %s" % (mut["id"], r.stdout + r.stderr))
        return
    p = os.path.join(root, mut["file"])
    s = open(p).read()
    cnt = s.count(mut["old"])
    if cnt != mut.get("count", 1):
        raise RuntimeError("mutant %s: pattern occurs %d times in %s" % (mut["id"], cnt, mut["file"]))
    s = s.replace(mut["old"], mut["new"])
    open(p, "w").write(s)


def run_check(prop, root, tier, seed=0):
    env = dict(os.environ)
    env["VERIF_REPO_ROOT"] = root
    env["VERIF_SEED"] = str(seed)
    t0 = time.time()
    r = subprocess.run([PY, "-m", "vmon.runner", prop, "--tier", tier, "--no-evidence"], cwd=VERIF, env=env,
                       stdout=subprocess.PIPE, stderr=subprocess.STDOUT, text=True)
    keys = [l.strip() for l in r.stdout.splitlines() if l.strip().startswith("clause=")]
    return {"rc": r.returncode, "fired": r.returncode == 1 and "VIOLATION property=" in r.stdout,
            "wall_s": round(time.time() - t0, 1), "first": keys[:2], "tail": r.stdout[-300:] if r.returncode == 2 else ""}


def main():
    from .catalogue import MUTANTS
    ap = argparse.ArgumentParser()
    ap.add_argument("--only", default="")
    ap.add_argument("--props", default="")
    ap.add_argument("--tier", default="quick")
    ap.add_argument("--resume", action="store_true")
    ap.add_argument("--out", default=os.path.join(VERIF, "vmon", "selftest", "results.json"))
    a = ap.parse_args()
    only = set(x for x in a.only.split(",") if x)
    pf = set(x for x in a.props.split(",") if x)
    try:
        results = json.load(open(a.out))
    except Exception:
        results = {}
    for mut in MUTANTS:
        if only and mut["id"] not in only:
            continue
        props = [p for p in mut["props"] if not pf or p in pf]
        if not props:
            continue
        if a.resume and mut["id"] in results and not results[mut["id"]].get("skipped"):
            continue
        root = make_copy()
        try:
            try:
                apply(root, mut)
            except RuntimeError as e:
                print("%-28s SKIPPED %s" % (mut["id"], str(e)[:200]), flush=True)
                results[mut["id"]] = {"desc": mut["desc"], "file": mut.get("file", mut.get("revert", mut.get("patch"))), "results": {}, "skipped": str(e)[:300]}
                continue
            res = {}
            for p in props:
                res[p] = run_check(p, root, a.tier)
                print("%-28s %s fired=%s rc=%d %.0fs %s" % (mut["id"], p, res[p]["fired"], res[p]["rc"], res[p]["wall_s"],
                                                          (res[p]["first"] or [res[p]["tail"]])[0][:150]), flush=True)
            results[mut["id"]] = {"desc": mut["desc"], "file": mut.get("file", mut.get("revert", mut.get("patch"))), "results": res,
                                  "expect": mut.get("expect", "fire")}
        finally:
            h = jit_source_hash(root)
            shutil.rmtree(root, ignore_errors=True)
            base = os.path.join(VERIF, ".cache", "numba")
            for dn in os.listdir(base) if os.path.isdir(base) else []:
                if dn.startswith(h[:20]) and dn != jit_source_hash("/repo"):
                    shutil.rmtree(os.path.join(base, dn), ignore_errors=True)
        with open(a.out, "w") as f:
            json.dump(results, f, indent=1, sort_keys=True)


if __name__ == "__main__":
    main()
