"""Generates /verif/MANIFEST.json from the table below:  python -m vmon.manifest"""
import json
import os

from .common import VERIF, GUARD

TRUST = ("Trusted base: CPython 3.12, NumPy/SciPy (oracles use scipy Rotation, expm/logm, fractions), the harness "
         "itself (vmon/), and for C02 the vendored modern_robotics 1.1.1 reference.  Verdicts are 'held on the "
         "executions observed', never a proof.")

CHECKS = {
    "C01": dict(
        technique="runtime monitoring: reference-oracle monitor over boundary-weighted generated inputs",
        text=("Every clause of the statement (proper rigid transform, both round trips, hat/vee, inverse, adjoint "
              "homomorphism/inverse/conjugation) is evaluated by an independent scipy-based oracle on each of "
              "8e4 (quick) / 3e6 (thorough) generated cases concentrated on the 1e-6 cut-off, the half turn (down to pi-3e-10, also about axes with "
              "one tiny component) and 2*pi, coordinate and generic axes, |p| up to 1e3.  Sampling, not proof: a violation confined to "
              "inputs outside the generated classes is not seen."),
        ref="DESIGN.md section 5 / C01"),
    "C02": dict(
        technique="runtime monitoring: differential execution against the vendored reference library",
        text=("All 47 shared functions (enumerated by introspection, fewer -> inconclusive) are executed side by side "
              "with the pinned modern_robotics 1.1.1 on equal deep copies of generated well-typed arguments; results "
              "are compared structurally and to 1e-9 relative (1e-7 trajectories), a port exception where the reference "
              "returns is a violation, an IK success is re-validated with the reference FK/log against the requested "
              "tolerances, and common convergence must reach the same solution (chaotic starts and inputs where the "
              "reference itself is discontinuous are detected by perturbation and only counted).  3e4 (quick) / "
              "1.1e6 (thorough) calls."),
        ref="DESIGN.md section 5 / C02", category="exploration"),
    "C03": dict(
        technique="runtime monitoring: class invariant + pose model after every step of enumerated and random histories; thorough also runs the repository's own test-suite under the same invariant as a pre/post contract",
        text=("A register machine drives real tm objects through every operation sequence up to length 3 over a "
              "77-operation alphabet on the property's value palette (thorough: exhaustive, 4.6e5 sequences; quick: "
              "length <= 2 exhaustive + sampled length 3) and through random histories of length <= 12; after a "
              "step the monitor reads gTM/gTAA/t[i]/t[a:b] of every object and checks SE(3) membership, position "
              "and rotation agreement of the two representations (5e-6) and the expected pose of the written "
              "object.  Exhaustive only inside that scope."),
        ref="DESIGN.md section 5 / C03"),
    "C04": dict(
        technique="runtime monitoring: reference-oracle monitor over generated pose triples and constructor forms",
        text=("Group-law clauses (@ = matrix product, inv, associativity, tm @ ndarray, localToGlobal/globalToLocal "
              "and their mutual inverse) and all constructor forms and spellings of one pose (lists, arrays, columns, Fortran order, np.float64 / int entries, rpy flag, nested pair) "
              "are compared with scipy-based oracle matrices, and every result is read through its matrix AND its six-vector, on 4e4 (quick) / 1e6 (thorough) triples with |p| up to 1e3 and angles up to pi-1e-3, boundary "
              "classes included."),
        ref="DESIGN.md section 5 / C04"),
    "C05": dict(
        technique="runtime monitoring: reference model in lock-step over operation histories, state read after every step; thorough also runs the repository's own test-suite under an Arm coherence contract",
        text=("Real Arm objects (5 bundled URDFs, the 6R test arm, random 1..7-joint chains; built at a base or at "
              "identity then moved) are driven through generated histories of length <= 10 over {FK, IK both paths, "
              "move, move(stationary), setArbitraryHome, restoreOriginalEE, randomPos} next to an independent "
              "product-of-exponentials model; after every step the return value, getEEPos, getBasePos, "
              "getJointTransforms, jacobian() and jacobianBody() are compared with the model (1e-7 poses, both representations of every published pose), "
              "and eight default-argument queries must leave the reported pose alone.  1.9e3 (quick) / 1.6e5 (thorough) histories."
              "  After a failed solve the model adopts whichever coherent state explains the reported pose (the property does not fix the failure policy)."),
        ref="DESIGN.md section 5 / C05"),
    "C06": dict(
        technique="runtime monitoring: finite-difference (Richardson) oracle on the arm's own FK, virtual-work oracle for statics",
        text=("For 960 (quick) / 1.9e5 (thorough) generated (arm, base, 0-3 moves/tool changes/restores in any order, configuration incl. joints within 5e-4 of a limit) cases the "
              "derivative of the arm's own FK / FKLink is taken by Richardson-extrapolated central differences and compared "
              "(1e-6 relative to the Jacobian norm) with jacobian, jacobianBody (also against Ad(inv T) J_space), "
              "jacobianLink for every link index, jacobianEETrans, numericalJacobian, velocityAtEndEffector, velocityAtJoints and both inverse Jacobians, also with "
              "an explicit joint vector while the arm is parked elsewhere; statics (space and body frame) is "
              "checked by power balance, transpose, inverse (rank 6, sigma_min >= 0.05) and, for link masses, by "
              "differentiating the published link centre-of-mass positions."),
        ref="DESIGN.md section 5 / C06"),
    "C07": dict(
        technique="runtime monitoring: postcondition oracle on every solver return + state coherence, fault goals (unreachable)",
        text=("9.6e3 (quick) / 6.4e5 (thorough) solves, in sessions of 1-4 on the same arm (incl. solves for the pose the arm already holds, entered with the state "
              "outside the limits, and IKFree goals the held joints make just unreachable), over arms x goals (reachable, limit boundary, beyond 1.5x a reach bound) x "
              "starts x restarts on/off x 12 tolerance pairs with pos != rot x {IK, constrainedIK, IK free, IKFree}.  On "
              "success the oracle's own PoE forward kinematics of the returned vector must meet the configured orientation and "
              "position tolerances, respect the limits (limit path) and equal the published state; unreachable goals must fail; "
              "failures must leave getEEPos() equal to the pose of the stored joint vector; starts within 0.02 rad of a "
              "well-conditioned in-limit solution must succeed (perturbation filter)."),
        ref="DESIGN.md section 5 / C07"),
    "C08": dict(
        technique="runtime monitoring: physical-identity oracles + cross-implementation agreement on generated chains/states",
        text=("640 (quick) / 8e4 (thorough) generated (chain, state) cases: mass matrix SPD and equal to sum J_i^T G_i J_i with the "
              "oracle's own link Jacobians, FD(ID)=id, torque decomposition, tip term = J_b^T F, qd.c = 1/2 qd^T Mdot qd "
              "(Richardson), gravity torque = gradient of the potential (physical inertias), energy conservation on integrated "
              "torque-free trajectories; all Arm-level dynamics methods (tip wrench as array, as Wrench object and defaulted; the arm's own integrator) compared with the "
              "mr functions on arms configured through the public setters in four call patterns and re-configured up to twice (6R test arm and random chains)."),
        ref="DESIGN.md section 5 / C08"),
    "C09": dict(
        technique="runtime monitoring: geometric oracle (plate-fixed joint coordinates) + round-trip monitor over generated platforms/poses",
        text=("640 (quick) / 6.4e4 (thorough) generated platforms (JSON, parametric and direct constructors, both handedness values, "
              "random bases; optionally moved and/or re-spun at neutral): published joints vs the parametric description, IK lengths "
              "vs joint distances on arbitrary plate-pose pairs, invariance under a common rigid motion, and for every in-workspace "
              "pose accepted without corrective action - plus one rim pose tilted about x and y and one pose whose first Newton update sums to zero per platform - "
              "the FK round trip with both solvers from the neutral pose (1e-3 h)."),
        ref="DESIGN.md section 5 / C09"),
    "C10": dict(
        technique="runtime monitoring: class invariants after every call of generated operation histories with out-of-workspace faults; thorough also runs the repository's own test-suite under an SP coherence contract",
        text=("320 (quick) / 6e3 (thorough) histories of up to 25 operations (IK in/out of workspace, FK in/out of stroke with both "
              "solvers and reversed, move, spinCustom, validate, Jacobian/force queries, randomPos) under all 16 validation-switch "
              "subsets, with tight joint-deflection limits and deliberate stands below the base; after every call the published plates, joints, lengths and relative transform are checked for coherence "
              "(1e-9), a returned 'valid' is re-evaluated independently against every enabled constraint, pure queries must leave "
              "the plates bit-identical and any exception (RecursionError included) is a violation.  The corrective paths reached are "
              "histogrammed in the evidence."),
        ref="DESIGN.md section 5 / C10"),
    "C11": dict(
        technique="runtime monitoring: finite-difference (Richardson) oracle on the platform's own IK + static-equilibrium identities",
        text=("400 (quick) / 1.9e5 (thorough) generated (geometry, base up to 200 m from the origin, optional move/spin, in-workspace pose with cond <= 1e4 - all three decades required -, twist, "
              "wrench, masses, gravity) cases: inverseJacobian . V against the Richardson derivative of the IK leg lengths along "
              "exp([V]t).top (1e-6), and Jinv^T tau = W for staticForces, staticForcesInv, sumActuatorWrenches = -W, the body-frame "
              "pair, and carryMassCalc with the plate and shaft weights at their centres of gravity (1e-8)."),
        ref="DESIGN.md section 5 / C11"),
    "C12": dict(
        technique="runtime monitoring: reference-oracle monitor (own adjoint) over generated frames/operands",
        text=("Frame-change group action, recorded frame, pairing invariance, p x f moment and zero moment at the "
              "application point, mixed-frame sums/differences and the vector-space laws are evaluated for Screw and "
              "Wrench on 2.4e4 (quick) / 6.4e5 (thorough) generated cases covering every operand kind (Python/NumPy "
              "scalars, 6-arrays, 6x1 arrays, objects) against an oracle built from the frames' published matrices."),
        ref="DESIGN.md section 5 / C12"),
    "C13": dict(
        technique="runtime monitoring: differential check of the loaded arm against an independent URDF-semantics parser on generated files",
        text=("The five bundled files and 880 (quick) / 1.6e5 (thorough) generated single-chain URDFs (1..8 moving, 0..4 fixed joints "
              "anywhere, each optional element omitted independently, generic axes, limits with a zero bound / excluding zero / integer and exponent spellings, world link, inertials, shuffled order) are "
              "loaded with loadArmFromURDF; num_dof, joint order, names and written limits must match an independent parser "
              "exactly and FK must match the file's semantics to 1e-6 on 20 joint vectors inside the limits each."),
        ref="DESIGN.md section 5 / C13"),
    "C14": dict(
        technique="runtime monitoring: byte/identity/memory-extent fingerprints of operands around every catalogued operation, "
                  "np.shares_memory alias check, result-mutation probe, __defaults__ scanner; thorough also runs the repository's own test-suite under the operand-fingerprint contract",
        text=("9.8e4 (quick) / 5.9e6 (thorough) applications of ~140 catalogued operations (operands with exact zeros included) (tm/Screw/Wrench operators in both operand "
              "positions, inv, copies, get-accessors, frame/distance/midpoint/gap/path helpers, Arm and SP constructors followed by "
              "use, every function of the Modern Robotics port): operands are fingerprinted before and after, results of operators, "
              "copies and accessors must not share memory with operands and mutating them in every way must leave the operands "
              "intact; default-constructed objects are re-checked after abusing earlier ones and every default argument in scope is "
              "fingerprinted before and after the run."),
        ref="DESIGN.md section 5 / C14"),
    "C15": dict(
        technique="runtime monitoring: exact rational oracle, exhaustive lattice enumeration of the real function",
        text=("RRTStar.obstruction is called on real PathNode/tm objects and compared with exact rational slab "
              "clipping.  Thorough enumerates the complete lattice of the property (117649 segments x 3375 boxes = "
              "3.97e8 calls, exhaustive:true only if all 49 shards finish); quick covers every box and every "
              "segment at least once plus box sets, several planners alive at once (each must answer for its own boxes) and robust float cases.  Outside the lattice the claim is "
              "sampling only."),
        ref="DESIGN.md section 5 / C15"),
    "C16": dict(
        technique="runtime monitoring: recording callback/index wrappers + offline replay of the insertion log against a brute-force "
                  "nearest-neighbour oracle and the exact collision oracle",
        text=("256 (quick) / 5e3 (thorough) planner runs (through findPathGeneral/generalGenerateTree and through the planner's own findPath()) over seeds, obstruction layouts (boxes, generated terrain), bounds, budgets "
              "1..400, both distance modes, neighbour limits 1..20 and caller-supplied callbacks.  Every generated sample, collision "
              "query, neighbour query and insertion is logged with a sequence number; offline the log is replayed: acceptance band "
              "w.r.t. the brute-force nearest node, examined set = k-NN, chosen parent = cheapest collision-free candidate, cost "
              "recurrence, edges free under the supplied detector and under the exact C15 oracle, rooted acyclic tree, node count, "
              "path = start .. parent chain .. goal."),
        ref="DESIGN.md section 5 / C16"),
    "C17": dict(
        technique="sanitizer: Numba array-bounds instrumentation (NUMBA_BOUNDSCHECK=1) + three-way differential execution "
                  "(bounds-checked / compiled / interpreted) + dispatcher vs py_func on array-layout variants",
        text=("One seeded call list - all 47 @jit kernels on the C01/C02/C09 input classes and every public tm/Arm/SP entry "
              "point that reaches a kernel, for every link/joint index - is executed in three processes (NUMBA_BOUNDSCHECK=1, "
              "default JIT, NUMBA_DISABLE_JIT=1); any IndexError or any result difference above 1e-10 is a violation (iterative kernels: only calls whose own answer is "
              "insensitive to a 1e-13 change of the start are compared), fewer than "
              "47 covered kernels is inconclusive.  In the JIT process each dispatcher is compared with its own py_func on "
              "C-ordered, Fortran-ordered, sliced and integer-typed arguments.  Covers the calls made, nothing else."),
        ref="DESIGN.md section 5 / C17"),
    "C18": dict(
        technique="runtime monitoring: one independent defining relation per helper, evaluated on generated poses",
        text=("Each helper named in the statement is run on 1.4e4 (quick) / 4.8e5 (thorough) generated cases (frames "
              "and mirror planes off-origin and rotated, |p| <= 10, angles up to pi-1e-3 with boundary classes) and "
              "its defining relation is checked with an oracle that never calls the helper's own code path "
              "(reflection in local coordinates, geodesic midpoint, z-axis through target, plane residuals, metric "
              "laws, relative-pose norm, exact step amounts, evenly spaced path, exp(twist) onto the goal, analytic "
              "Jacobians, unit norms, congruence modulo 2*pi)."),
        ref="DESIGN.md section 5 / C18"),
    "C19": dict(
        technique="runtime monitoring: offline multiset/exactly-once checker against a sequential reference model, exhaustive short "
                  "histories, receive-fault injection at every receive position",
        category="fault_enumeration",
        text=("The real Comms hub runs with in-memory CommsObject doubles, recording sinks/sources and uniquely identified "
              "messages; after every operation the multiset of deliveries and the registration return values are compared with "
              "a 40-line sequential model.  All sequences up to depth 3 (quick) / 5 (thorough, 5.4e6 sequences) over a "
              "22-operation alphabet on two endpoints are enumerated; random histories of depth <= 60 on 1..4 endpoints are "
              "re-run once per receive position with a no-data fault injected there; a short run uses real UDP loopback "
              "sockets (reported as skipped if they cannot be bound)."),
        ref="DESIGN.md section 5 / C19"),
    "C20": dict(
        technique="runtime monitoring: totality + stdout capture + parse-back oracle over generated objects",
        text=("disp is run on generated objects of every listed kind with stdout captured; the monitor asserts no "
              "exception, a str result, stdout == result + newline (or nothing with noprint) and, for numeric "
              "arrays of <= 4 axes with |x| < 9999, parses the rendered rows back and compares them in row-major "
              "order to the elements at half a unit of the last decimal (table mode, and LaTeX mode for 2-D).  "
              "Thorough enumerates all 3906 shapes x 3 dtypes x 9 decimals."),
        ref="DESIGN.md section 5 / C20"),
}

BUILT = set(CHECKS)
ALL = ["C%02d" % i for i in range(1, 21)]


def build():
    checks = []
    for pid in ALL:
        if pid not in CHECKS:
            continue
        c = CHECKS[pid]
        checks.append({
            "property_id": pid,
            "quick_cmd": "./check %s --tier quick" % pid,
            "thorough_cmd": "./check %s --tier thorough" % pid,
            "evidence_file": "/verif/evidence/%s.json" % pid,
            "replay_cmd_template": "./check %s --replay {path}" % pid,
            "engine": "vmon",
            "level_claimed": {"category": c.get("category", "exploration"), "text": c["text"],
                              "design_ref": c["ref"]},
            "level_note": c.get("note", TRUST),
            "technique": c["technique"],
        })
    na = [{"property_id": pid, "reason": "runtime-monitoring check for this property is not built yet (work in "
           "progress in this session; the family applies - see DESIGN.md section 5)"}
          for pid in ALL if pid not in CHECKS]
    m = {
        "version": 1,
        "setup_cmd": "./setup.sh",
        "hooks": {
            "guard": GUARD,
            "enable": ("none needed: monitors are installed from the harness (class/method wrapping, callback "
                       "doubles); workers export %s=1 for any future in-repo hook" % GUARD),
            "baseline_off_cmd": ("cd /repo && env -u %s /venv/bin/python -m pytest -ra -q -p no:cacheprovider "
                                 "--timeout=900 --continue-on-collection-errors" % GUARD),
            "source_commits": [],
            "add_only": True,
        },
        "engines": [{"name": "vmon", "path": "/verif/vmon", "serves_properties": sorted(CHECKS),
                     "kind_free_text": "runtime monitors + reference oracles over generated workloads, "
                                       "subprocess workers, offline history checkers"}],
        "checks": checks,
        "notes": ("exit 0 held (KNOWN-FINDING lines for entries of known_findings.json), 1 violation, 2 "
                  "inconclusive (a deciding monitor never ran / a worker died).  VERIF_SEED selects the workload, "
                  "VERIF_REPO_ROOT (default /repo) the tree under test, VERIF_JOBS the parallelism."),
        "not_applicable": na,
    }
    return m


if __name__ == "__main__":
    m = build()
    with open(os.path.join(VERIF, "MANIFEST.json"), "w") as f:
        json.dump(m, f, indent=1)
    print("wrote MANIFEST.json with", len(m["checks"]), "checks,", len(m["not_applicable"]), "not applicable")
