"""pytest plugin: the repository's own test-suite as a workload, observed by contract monitors.

Loaded with  `pytest -p vmon.suite_monitors`  (PYTHONPATH has /verif and the tree under test).  Nothing in the
repository is edited: the contracts are wrapped around the real classes / module functions at configure time.

VERIF_SUITE_MONITORS  comma list of monitors to arm:
    C03  class invariant of `tm` as a pre/post contract: if the receiver and every transform operand satisfied the
         invariant on entry (and the other arguments are valid poses / finite scalars), then the receiver and the
         result satisfy it on exit.  Objects a test corrupted on purpose (writing .TM / .TAA directly, non-rigid
         4x4 input) fail the pre-condition and are counted as skipped, never reported.
    C14  operands of operators / copies / get-accessors / frame helpers are bit-identical after the call and the
         returned payload shares no memory with them; at session end default-constructed objects are still the
         identity / zero and no mutable default argument changed.
    C05  coherence of a serial arm as a pre/post contract around every public Arm/Robot method the suite calls: if
         reported tool pose == PoE(published home pose, published screws, stored joint vector) held on entry, it holds
         on exit (1e-7, scaled as in the C05 check), and the base pose is finite rigid.
    C10  coherence of a Stewart platform around every public SP/Robot method: leg lengths == joint-to-joint distances,
         relative transform == inv(bottom) * top, and the joints keep their plate-fixed coordinates (except through
         spinCustom / construction), 1e-9 scaled; the known un-invert finding is keyed exactly as in the C10 check.
VERIF_SUITE_OUT       path of the JSON report written at session end.
"""
import functools
import json
import os
import types

import numpy as np

WHICH = set(x for x in os.environ.get("VERIF_SUITE_MONITORS", "").split(",") if x)
OUT = os.environ.get("VERIF_SUITE_OUT")
ABS5 = 5e-6
MAXV = 40

S = {"tests": 0, "checked": {}, "skipped_pre": {}, "raised": {}, "violations": [], "viol_counts": {}, "samples": [],
     "installed": [], "final": {}}
_depth = [0]


def _bump(group, name):
    S[group][name] = S[group].get(name, 0) + 1


def _viol(prop, clause, key, detail):
    k = "%s|%s|%s" % (prop, clause, key)
    S["viol_counts"][k] = S["viol_counts"].get(k, 0) + 1
    if S["viol_counts"][k] <= 3 and len(S["violations"]) < MAXV:
        S["violations"].append({"prop": prop, "clause": clause, "key": key, "detail": detail,
                                "test": os.environ.get("PYTEST_CURRENT_TEST", "?").split(" ")[0]})


def _exp3(w):
    from scipy.spatial.transform import Rotation
    return Rotation.from_rotvec(np.asarray(w, dtype=float).reshape(3)).as_matrix()


def _is_tm(x):
    return hasattr(x, "TM") and hasattr(x, "TAA") and hasattr(x, "gTM")


def tm_invariant(t):
    """None if the invariant holds, else the name of the first failing clause."""
    TM, TAA = getattr(t, "TM", None), getattr(t, "TAA", None)
    if not (isinstance(TM, np.ndarray) and TM.shape == (4, 4) and TM.dtype.kind == "f"
            and isinstance(TAA, np.ndarray) and TAA.shape == (6, 1) and TAA.dtype.kind == "f"):
        return "inv.shape"
    if not (np.all(np.isfinite(TM)) and np.all(np.isfinite(TAA))):
        return "inv.finite"
    taa = TAA.reshape(6)
    if np.abs(TM[3] - np.array([0.0, 0.0, 0.0, 1.0])).max() > ABS5:
        return "inv.lastrow"
    R = TM[:3, :3]
    if np.abs(R.T @ R - np.eye(3)).max() > ABS5 or abs(np.linalg.det(R) - 1) > ABS5:
        return "inv.rot"
    pt = max(ABS5, 1e-9 * float(np.abs(taa[:3]).max()))
    if np.abs(TM[:3, 3] - taa[:3]).max() > pt:
        return "inv.pos"
    if np.abs(R - _exp3(taa[3:])).max() > ABS5:
        return "inv.exp"
    return None


def _se3(M):
    M = np.asarray(M)
    if M.shape != (4, 4) or M.dtype.kind not in "fi" or not np.all(np.isfinite(M)):
        return False
    R = M[:3, :3].astype(float)
    return (np.abs(M[3] - np.array([0, 0, 0, 1.0])).max() < 1e-9 and np.abs(R.T @ R - np.eye(3)).max() < 1e-9
            and abs(np.linalg.det(R) - 1) < 1e-9)


def _numeric_vec(x, sizes):
    try:
        a = np.asarray(x, dtype=float)
    except Exception:
        return False
    return a.size in sizes and bool(np.all(np.isfinite(a))) and float(np.abs(a).max(initial=0.0)) < 1e6


def _scalar_ok(x, divisor=False):
    if isinstance(x, bool) or not isinstance(x, (int, float, np.integer, np.floating)):
        return False
    x = float(x)
    return np.isfinite(x) and abs(x) < 1e6 and (not divisor or abs(x) > 1e-6)


# ------------------------------------------------------------------------------------------------ C03
def _c03_args_ok(name, args, kwargs):
    """Are the non-receiver arguments 'valid poses' in the sense of the property?  Conservative: unknown -> False."""
    if kwargs and name != "__init__":
        return False
    if name == "__init__":
        if len(args) == 0 or args[0] is None:
            return True
        x = args[0]
        if _is_tm(x):
            return tm_invariant(x) is None
        if isinstance(x, np.ndarray) and x.dtype == object:
            return x.size == 1 and _is_tm(x.flat[0]) and tm_invariant(x.flat[0]) is None
        if isinstance(x, np.ndarray) and x.shape == (4, 4):
            return _se3(x)
        if isinstance(x, (list, tuple)) and len(x) == 2 and all(isinstance(y, (list, tuple, np.ndarray)) for y in x):
            return all(_numeric_vec(y, (3,)) for y in x)
        if isinstance(x, (list, tuple, np.ndarray)):
            if not _numeric_vec(x, (3, 6, 7)):
                return False
            a = np.asarray(x, dtype=float).reshape(-1)
            return a.size != 7 or abs(np.linalg.norm(a[3:]) - 1) < 1e-6
        return False
    if name in ("copy", "inv", "angleMod", "__abs__"):
        return len(args) == 0
    if name == "sTM":
        return len(args) == 1 and isinstance(args[0], np.ndarray) and _se3(args[0]) and args[0].dtype.kind == "f"
    if name in ("sTAA", "set"):
        return len(args) == 1 and isinstance(args[0], np.ndarray) and args[0].shape == (6, 1) and args[0].dtype.kind == "f" and _numeric_vec(args[0], (6,))
    if name == "setQuat":
        return len(args) == 1 and _numeric_vec(args[0], (4,)) and abs(np.linalg.norm(np.asarray(args[0], dtype=float)) - 1) < 1e-6
    if name == "__setitem__":
        if len(args) != 2:
            return False
        i, v = args
        if isinstance(i, (int, np.integer)):
            return -6 <= i < 6 and _scalar_ok(v)
        if isinstance(i, slice):
            n = len(range(*i.indices(6)))
            return n > 0 and _numeric_vec(v, (n,))
        return False
    if name in ("__matmul__", "__rmatmul__"):
        x = args[0] if len(args) == 1 else None
        if _is_tm(x):
            return tm_invariant(x) is None
        return isinstance(x, np.ndarray) and x.shape == (4, 4) and _se3(x)
    if name in ("__add__", "__sub__"):
        x = args[0] if len(args) == 1 else None
        if _is_tm(x):
            return tm_invariant(x) is None
        if isinstance(x, np.ndarray):
            return x.dtype.kind == "f" and _numeric_vec(x, (6,))
        return _scalar_ok(x)
    if name in ("__mul__", "__rmul__"):
        x = args[0] if len(args) == 1 else None
        if _is_tm(x):
            return tm_invariant(x) is None
        return _scalar_ok(x)
    if name == "__truediv__":
        return len(args) == 1 and _scalar_ok(args[0], divisor=True)
    if name == "__floordiv__":
        x = args[0] if len(args) == 1 else None
        if _is_tm(x):
            return tm_invariant(x) is None
        return _scalar_ok(x, divisor=True)
    return False


C03_METHODS = ["__init__", "sTM", "sTAA", "set", "__setitem__", "setQuat", "angleMod", "copy", "inv", "__matmul__", "__rmatmul__",
               "__add__", "__sub__", "__mul__", "__rmul__", "__truediv__", "__abs__", "__floordiv__"]


def _wrap_c03_method(cls, name):
    orig = cls.__dict__[name]

    @functools.wraps(orig)
    def wrapper(self, *args, **kwargs):
        outer = _depth[0] == 0
        pre = None
        if outer:
            try:
                pre_self = True if name == "__init__" else tm_invariant(self) is None
                pre = pre_self and _c03_args_ok(name, args, kwargs)
            except Exception:
                pre = False
        _depth[0] += 1
        try:
            r = orig(self, *args, **kwargs)
        except BaseException:
            if outer:
                _bump("raised", "C03:tm." + name)
            raise
        finally:
            _depth[0] -= 1
        if outer:
            label = "C03:tm." + name
            if not pre:
                _bump("skipped_pre", label)
            else:
                _bump("checked", label)
                for what, obj in (("self", self), ("result", r)):
                    if obj is None or not _is_tm(obj):
                        continue
                    bad = tm_invariant(obj)
                    if bad is not None:
                        _viol("C03", bad, "suite/tm.%s/%s/%s" % (name, what, bad),
                              {"TM": np.asarray(obj.TM).tolist() if isinstance(obj.TM, np.ndarray) else repr(obj.TM),
                               "TAA": np.asarray(obj.TAA).reshape(-1).tolist() if isinstance(obj.TAA, np.ndarray) else repr(obj.TAA)})
                if len(S["samples"]) < 6 and name not in ("__init__", "copy"):
                    S["samples"].append({"monitor": "C03", "call": "tm." + name, "receiver_taa": np.asarray(self.TAA).reshape(-1).tolist(),
                                         "test": os.environ.get("PYTEST_CURRENT_TEST", "?").split(" ")[0]})
        return r
    return wrapper


def _wrap_c03_helper(mod, name):
    orig = getattr(mod, name)

    @functools.wraps(orig)
    def wrapper(*args, **kwargs):
        outer = _depth[0] == 0
        pre = outer and not kwargs and len(args) == 2 and all(_is_tm(a) and tm_invariant(a) is None for a in args)
        _depth[0] += 1
        try:
            r = orig(*args, **kwargs)
        finally:
            _depth[0] -= 1
        if outer:
            label = "C03:fsr." + name
            if not pre:
                _bump("skipped_pre", label)
            else:
                _bump("checked", label)
                for what, obj in (("arg0", args[0]), ("arg1", args[1]), ("result", r)):
                    if _is_tm(obj):
                        bad = tm_invariant(obj)
                        if bad is not None:
                            _viol("C03", bad, "suite/fsr.%s/%s/%s" % (name, what, bad), {"TAA": np.asarray(obj.TAA).reshape(-1).tolist()})
        return r
    return wrapper


# ------------------------------------------------------------------------------------------------ C14
def _arrays_of(x, depth=0):
    if isinstance(x, np.ndarray):
        return [x] if x.dtype != object else []
    if hasattr(x, "TM") and hasattr(x, "TAA"):
        return [a for a in (x.TM, x.TAA) if isinstance(a, np.ndarray)]
    if hasattr(x, "data") and hasattr(x, "frame_applied"):
        return [x.data] if isinstance(x.data, np.ndarray) else []
    out = []
    if isinstance(x, (list, tuple)) and depth < 3:
        for y in x:
            out += _arrays_of(y, depth + 1)
    return out


def _fp(x):
    return [(id(a), a.shape, a.tobytes(), a.__array_interface__["data"][0]) for a in _arrays_of(x)]


C14_TM_VALUE = ["__matmul__", "__rmatmul__", "__add__", "__sub__", "__mul__", "__rmul__", "__truediv__", "__floordiv__", "__abs__", "inv", "copy",
                "gTM", "gTAA", "gRot", "gPos", "getQuat", "adjoint", "exp6", "approx", "tripleUnit"]
C14_SW_VALUE = ["__add__", "__radd__", "__sub__", "__rsub__", "__mul__", "__rmul__", "__truediv__", "__floordiv__", "__abs__", "copy", "getData",
                "flatten", "getForce", "getMoment"]
C14_HELPERS_VALUE = ["localToGlobal", "globalToLocal"]
C14_HELPERS = ["distance", "arcDistance", "tmAvgMidpoint", "tmInterpMidpoint", "closeLinearGap", "closeArcGap", "IKPath", "mirror", "lookAt",
               "poseError", "geometricError", "twistToGoal", "adjustRotationToMidpoint", "planeFromThreePoints", "angleBetween", "getUnitVec",
               "twistFromTransform", "transformFromTwist", "transformByVector", "chainJacobian", "makeWrench"]


def _wrap_c14(orig, label, value, is_method):
    @functools.wraps(orig)
    def wrapper(*args, **kwargs):
        operands = list(args) + [kwargs[k] for k in sorted(kwargs)]
        try:
            before = [_fp(o) for o in operands]
        except Exception:
            before = None
        try:
            r = orig(*args, **kwargs)
        except BaseException:
            _bump("raised", label)
            if before is not None:
                for i, (o, b) in enumerate(zip(operands, before)):
                    if _fp(o) != b:
                        _viol("C14", "no_mutation", "suite/mutates_operand/%s/arg%d/raising" % (label, i), {})
            raise
        if before is None:
            _bump("skipped_pre", label)
            return r
        _bump("checked", label)
        for i, (o, b) in enumerate(zip(operands, before)):
            if _fp(o) != b:
                _viol("C14", "no_mutation", "suite/mutates_operand/%s/arg%d" % (label, i), {})
        if value and r is not None:
            ra = _arrays_of(r)
            for a in ra:
                for i, o in enumerate(operands):
                    for oa in _arrays_of(o):
                        if np.shares_memory(a, oa):
                            _viol("C14", "no_alias", "suite/result_aliases_operand/%s/arg%d" % (label, i), {})
        if len(S["samples"]) < 12 and S["checked"].get(label, 0) == 1:
            S["samples"].append({"monitor": "C14", "call": label, "operands": [[a.ravel().tolist()[:16] for a in _arrays_of(o)] for o in operands],
                                 "test": os.environ.get("PYTEST_CURRENT_TEST", "?").split(" ")[0]})
        return r
    return wrapper


def _defaults_table(mods):
    tab = {}
    for mod in mods:
        for name, obj in list(vars(mod).items()):
            fns = []
            if isinstance(obj, types.FunctionType):
                fns.append((name, obj))
            elif isinstance(obj, type) and obj.__module__ == mod.__name__:
                for n2, o2 in vars(obj).items():
                    o2 = getattr(o2, "__wrapped__", o2)
                    if isinstance(o2, types.FunctionType):
                        fns.append((name + "." + n2, o2))
            for qn, f in fns:
                f = getattr(f, "__wrapped__", f)
                if f.__defaults__:
                    vals = []
                    for d in f.__defaults__:
                        if isinstance(d, np.ndarray):
                            vals.append(["nd", list(d.shape), d.tobytes().hex()])
                        elif hasattr(d, "TM") and hasattr(d, "TAA"):
                            vals.append(["tm", d.TM.tobytes().hex(), d.TAA.tobytes().hex()])
                        elif hasattr(d, "data") and hasattr(d, "frame_applied"):
                            vals.append(["screw", np.asarray(d.data).tobytes().hex()])
                        elif isinstance(d, (list, dict)):
                            vals.append(["container", repr(d)])
                    if vals:
                        tab[mod.__name__ + ":" + qn] = vals
    return tab




# ------------------------------------------------------------------------------------------------ C05 / C10
def _poe(M, Sl, th):
    from vmon.oracle import se3
    return se3.poe_space(np.asarray(M, dtype=float), np.asarray(Sl, dtype=float), np.asarray(th, dtype=float).reshape(-1))


def _quiet(fn):
    """Monitor code reads the objects through wrapped public methods: those reads must not be monitored themselves."""
    @functools.wraps(fn)
    def w(*a, **k):
        _depth[0] += 1
        try:
            return fn(*a, **k)
        finally:
            _depth[0] -= 1
    return w


@_quiet
def arm_state(arm):
    """(error, tolerance) of 'reported tool pose == pose implied by the stored joint state', or None if unreadable."""
    try:
        th = np.asarray(arm._theta, dtype=float).reshape(-1)
        Sl = np.asarray(arm.getScrewList(), dtype=float)
        M = np.asarray(arm._end_effector_home.TM, dtype=float)
        T = np.asarray(arm._end_effector_pos_global.TM, dtype=float)
        if Sl.shape != (6, th.size) or not (np.all(np.isfinite(th)) and np.all(np.isfinite(T)) and np.all(np.isfinite(M))):
            return None
        want = _poe(M, Sl, th)
    except Exception:
        return None
    sc = max(1.0, float(np.linalg.norm(want[:3, 3])))
    band = bool(np.any((np.abs(th) > 0) & (np.abs(th) < 2e-6)))
    big = float(np.max(np.abs(th))) if th.size else 0.0
    t = (2e-6 * th.size if band else 1e-7) * sc + 1e-14 * big * sc
    return float(np.abs(T - want).max()), t


@_quiet
def sp_state(sp):
    try:
        Bm = np.asarray(sp.getBottomT().TM, dtype=float)
        Tm = np.asarray(sp.getTopT().TM, dtype=float)
        bj = np.asarray(sp.getBottomJoints(), dtype=float)
        tj = np.asarray(sp.getTopJoints(), dtype=float)
        L = np.asarray(sp.getLens(), dtype=float).reshape(-1)
        rel = np.asarray(sp.getCurrentLocalTransform().TM, dtype=float)
    except Exception:
        return None
    if bj.shape != (3, 6) or tj.shape != (3, 6) or L.shape != (6,):
        return None
    if not all(np.all(np.isfinite(x)) for x in (Bm, Tm, bj, tj, L, rel)):
        return None
    return Bm, Tm, bj.copy(), tj.copy(), L.copy(), rel


def sp_errors(st):
    Bm, Tm, bj, tj, L, rel = st
    d = np.linalg.norm(tj - bj, axis=0)
    e2 = float(np.abs(L - d).max()) / max(1.0, float(d.max()))
    want = np.linalg.inv(Bm) @ Tm
    e3 = float(np.abs(rel - want).max()) / max(1.0, float(np.abs(want[:3, 3]).max()))
    return e2, e3


def sp_local(st):
    Bm, Tm, bj, tj, L, rel = st
    hb = np.vstack([bj, np.ones((1, 6))])
    ht = np.vstack([tj, np.ones((1, 6))])
    return (np.linalg.inv(Bm) @ hb)[:3], (np.linalg.inv(Tm) @ ht)[:3]


_uninverted = [False]
KIN_SKIP = {"draw", "addCamera", "updateCams", "anon", "setDrawingParameters"}


def _wrap_kin(orig, name, Arm, SP):
    @functools.wraps(orig)
    def wrapper(self, *args, **kwargs):
        outer = _depth[0] == 0
        kind = "Arm" if isinstance(self, Arm) else "SP" if isinstance(self, SP) else None
        armed = outer and ((kind == "Arm" and "C05" in WHICH) or (kind == "SP" and "C10" in WHICH))
        pre = None
        if armed and name != "__init__":
            if kind == "Arm":
                a = arm_state(self)
                pre = a is not None and a[0] <= a[1]
            else:
                st0 = sp_state(self)
                pre = st0 is not None and max(sp_errors(st0)) <= 1e-9
                _uninverted[0] = False
        _depth[0] += 1
        try:
            r = orig(self, *args, **kwargs)
        except BaseException:
            if armed:
                _bump("raised", ("C05:Arm." if kind == "Arm" else "C10:SP.") + name)
            raise
        finally:
            _depth[0] -= 1
        if not armed:
            return r
        label = ("C05:Arm." if kind == "Arm" else "C10:SP.") + name
        if name == "__init__":
            pre = True
        if not pre:
            _bump("skipped_pre", label)
            return r
        if kind == "Arm":
            a = arm_state(self)
            if a is None:
                _bump("skipped_pre", label + "/unreadable_after")
                return r
            _bump("checked", label)
            if not (a[0] <= a[1]):
                _viol("C05", "b.eepos", "suite/eepos_not_pose_of_joint_state/after=" + name, {"err": a[0], "tol": a[1]})
            try:
                Bp = np.asarray(self._base_pos_global.TM, dtype=float)
                if not _se3_loose(Bp):
                    _viol("C05", "c.base", "suite/base_not_rigid/after=" + name, {"base": Bp.tolist()})
            except Exception as e:
                _viol("C05", "c.base", "suite/base_unreadable/after=" + name, {"exc": repr(e)[:200]})
        else:
            st1 = sp_state(self)
            if st1 is None:
                _viol("C10", "I1.joints", "suite/nonfinite_or_unreadable_state/after=" + name, {})
                return r
            _bump("checked", label)
            e2, e3 = sp_errors(st1)
            if e2 > 1e-9:
                _viol("C10", "I2.lengths", "suite/lengths_not_joint_distances/after=" + name, {"rel_err": e2})
            if e3 > 1e-9:
                _viol("C10", "I3.relative", "suite/relative_not_inv_bottom_top/after=" + name, {"rel_err": e3})
            if name not in ("__init__", "spinCustom"):
                lb0, lt0 = sp_local(st0)
                lb1, lt1 = sp_local(st1)
                sc = max(1.0, float(np.abs(st1[0][:3, 3]).max()) + float(np.abs(st1[1][:3, 3]).max()) + float(np.abs(lb0).max()))
                e1 = max(float(np.abs(lb1 - lb0).max()), float(np.abs(lt1 - lt0).max()))
                if e1 > 1e-9 * sc:
                    key = "joints_not_plate_times_local/after_un-invert" if _uninverted[0] else "suite/joints_left_their_plate/after=" + name
                    _viol("C10", "I1.joints", key, {"err": e1, "scale": sc})
        if len(S["samples"]) < 12 and S["checked"].get(label, 0) == 1:
            S["samples"].append({"monitor": label.split(":")[0], "call": label.split(":")[1],
                                 "test": os.environ.get("PYTEST_CURRENT_TEST", "?").split(" ")[0]})
        return r
    return wrapper


def _se3_loose(M):
    if M.shape != (4, 4) or not np.all(np.isfinite(M)):
        return False
    R = M[:3, :3]
    return bool(np.abs(M[3] - np.array([0, 0, 0, 1.0])).max() < ABS5 and np.abs(R.T @ R - np.eye(3)).max() < ABS5 and abs(np.linalg.det(R) - 1) < ABS5)


def _install_kin():
    import basic_robotics.kinematics.arm_model as m_arm
    import basic_robotics.kinematics.sp_model as m_sp
    import basic_robotics.kinematics.robot_model as m_rb
    Arm, SP, Robot = m_arm.Arm, m_sp.SP, m_rb.Robot
    for cls, pref in ((Robot, "Robot"), (Arm, "Arm"), (SP, "SP")):
        if (pref == "Arm" and "C05" not in WHICH) or (pref == "SP" and "C10" not in WHICH):
            continue
        for name, f in list(cls.__dict__.items()):
            if not isinstance(f, types.FunctionType) or name in KIN_SKIP or (name.startswith("_") and name != "__init__"):
                continue
            setattr(cls, name, _wrap_kin(f, name, Arm, SP))
            S["installed"].append(("C05:" if pref != "SP" else "C10:") + pref + "." + name)
            if pref == "Robot":
                S["installed"].append("C10:" + pref + "." + name)
    if "C10" in WHICH and "_fixUpsideDown" in SP.__dict__:
        orig = SP.__dict__["_fixUpsideDown"]

        @functools.wraps(orig)
        def fix_rec(self, *a, **k):
            _uninverted[0] = True
            _bump("checked", "C10:corrective.un-invert")
            return orig(self, *a, **k)
        SP._fixUpsideDown = fix_rec


_MODS = []
_TABLE0 = {}


def _install():
    import basic_robotics.general.faser_transform as m_tm
    import basic_robotics.general.faser_general as m_fg
    import basic_robotics.general.faser_screw as m_sc
    import basic_robotics.general.faser_wrench as m_wr
    import basic_robotics.general.basic_helpers as m_bh
    tm = m_tm.tm
    if "C14" in WHICH:
        import basic_robotics.kinematics.arm_model as m_arm
        import basic_robotics.kinematics.sp_model as m_sp
        import basic_robotics.kinematics.robot_model as m_rb
        _MODS.extend([m_tm, m_sc, m_wr, m_fg, m_bh, m_arm, m_sp, m_rb])
        _TABLE0.update(_defaults_table(_MODS))
        for name in C14_TM_VALUE:
            if name in tm.__dict__:
                setattr(tm, name, _wrap_c14(tm.__dict__[name], "C14:tm." + name, True, True))
                S["installed"].append("C14:tm." + name)
        for cls in (m_sc.Screw, m_wr.Wrench):
            for name in C14_SW_VALUE:
                if name in cls.__dict__:
                    setattr(cls, name, _wrap_c14(cls.__dict__[name], "C14:%s.%s" % (cls.__name__, name), True, True))
                    S["installed"].append("C14:%s.%s" % (cls.__name__, name))
        for name in C14_HELPERS_VALUE + C14_HELPERS:
            for mod in (m_fg, m_bh):
                f = vars(mod).get(name)
                if isinstance(f, types.FunctionType) and f.__module__ == mod.__name__:
                    setattr(mod, name, _wrap_c14(f, "C14:fsr." + name, name in C14_HELPERS_VALUE, False))
                    S["installed"].append("C14:fsr." + name)
    if "C03" in WHICH:
        for name in C03_METHODS:
            if name in tm.__dict__:
                setattr(tm, name, _wrap_c03_method(tm, name))
                S["installed"].append("C03:tm." + name)
        for name in ("localToGlobal", "globalToLocal"):
            for mod in (m_fg, m_bh):
                f = vars(mod).get(name)
                if callable(f) and getattr(f, "__module__", None) == mod.__name__:
                    setattr(mod, name, _wrap_c03_helper(mod, name))
                    S["installed"].append("C03:fsr." + name)
    # names re-exported by `from x import *` before we wrapped them keep the unwrapped function: re-bind the package-level aliases
    import basic_robotics.general as g
    for mod in (m_fg, m_bh):
        for name in list(vars(mod)):
            if name in vars(g) and isinstance(vars(mod)[name], types.FunctionType) and vars(g)[name] is not vars(mod)[name] \
                    and getattr(vars(mod)[name], "__wrapped__", None) is vars(g)[name]:
                setattr(g, name, vars(mod)[name])


def _final_checks():
    if "C14" not in WHICH:
        return
    import basic_robotics.general.faser_transform as m_tm
    import basic_robotics.general.faser_screw as m_sc
    import basic_robotics.general.faser_wrench as m_wr
    t0, s0, w0 = m_tm.tm(), m_sc.Screw(), m_wr.Wrench()
    ok_t = np.array_equal(t0.TM, np.eye(4)) and np.array_equal(np.asarray(t0.TAA).reshape(-1), np.zeros(6))
    ok_s = np.array_equal(np.asarray(s0.data).reshape(-1), np.zeros(6)) and np.array_equal(s0.frame_applied.TM, np.eye(4))
    ok_w = np.array_equal(np.asarray(w0.data).reshape(-1), np.zeros(6)) and np.array_equal(w0.frame_applied.TM, np.eye(4))
    S["final"]["fresh_defaults_checked"] = 3
    for ok, which in ((ok_t, "tm"), (ok_s, "Screw"), (ok_w, "Wrench_or_frame")):
        if not ok:
            _viol("C14", "fresh_defaults", "suite/default_instance_not_fresh/" + which, {})
    t1 = _defaults_table(_MODS)
    S["final"]["default_arguments_fingerprinted"] = len(_TABLE0)
    for k in _TABLE0:
        if _TABLE0[k] != t1.get(k):
            _viol("C14", "defaults_table", "suite/default_argument_changed/" + k.split(":")[1], {})


# ------------------------------------------------------------------------------------------------ pytest hooks
def pytest_configure(config):
    if WHICH & {"C03", "C14"}:
        _install()
    if WHICH & {"C05", "C10"}:
        _install_kin()


def pytest_runtest_setup(item):
    S["tests"] += 1


def pytest_sessionfinish(session, exitstatus):
    if not (WHICH and OUT):
        return
    try:
        _final_checks()
    except Exception as e:  # reported as inconclusive by the reader
        S["final"]["error"] = repr(e)
    with open(OUT + ".tmp", "w") as f:
        json.dump(S, f)
    os.replace(OUT + ".tmp", OUT)
