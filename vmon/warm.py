"""Warm the per-source-hash Numba cache in a worker-like subprocess (setup step, never a verdict)."""
import subprocess
import sys

from .common import PY, VERIF, worker_env

CODE = r"""
import numpy as np
from vmon.worker import import_target
import_target()
from vmon.jitcache import enable_all
enable_all()
from basic_robotics.general import tm, fsr, Wrench, Screw
from basic_robotics.modern_robotics_numba import mr
a = tm([1, 2, 3, .1, .2, .3]); b = (a @ a.inv()); fsr.globalToLocal(a, b); fsr.localToGlobal(a, b)
S = np.array([[0, 0, 1, 0, 0, 0], [0, 1, 0, 0, 0, 1.]]).T
th = np.array([.1, .2])
mr.FKinSpace(np.eye(4), S, th); mr.FKinBody(np.eye(4), S, th); mr.JacobianSpace(S, th); mr.JacobianBody(S, th)
mr.IKinSpace(S, np.eye(4), np.eye(4), th, 1e-3, 1e-3); mr.IKinBody(S, np.eye(4), np.eye(4), th, 1e-3, 1e-3)
mr.ad(np.arange(6.)); mr.MatrixLog6(np.eye(4)); mr.MatrixExp6(np.zeros((4, 4)))
print("warm ok")
"""


def main():
    r = subprocess.run([PY, "-c", CODE], cwd=VERIF, env=worker_env(), timeout=900)
    return r.returncode


if __name__ == "__main__":
    sys.exit(main())
