"""Parent process: plans shards, runs workers under watchdogs, merges, decides.

usage: python -m vmon.runner <PROP> [--tier quick|thorough] [--replay file]
exit 0 held / 1 violation (prints VIOLATION lines) / 2 inconclusive
"""
import argparse
import json
import os
import shutil
import subprocess
import sys
import tempfile
import time

import numpy as np

from .common import PY, VERIF, jdump, prune_caches, repo_root, worker_env, jit_source_hash, eprint

NPROC = int(os.environ.get("VERIF_JOBS", "16"))


def load_known():
    p = os.path.join(VERIF, "known_findings.json")
    try:
        with open(p) as f:
            d = json.load(f)
    except OSError:
        d = {}
    return d.get("known", []), d.get("fixed", [])


def run_workers(prop, specs, root):
    """Run every spec in its own subprocess (never a Pool: a dead child must not hang us)."""
    work = tempfile.mkdtemp(prefix="vmon_%s_" % prop, dir=os.path.join(VERIF, ".cache"))
    pending = list(enumerate(specs))
    running = []
    results = [None] * len(specs)
    try:
        while pending or running:
            while pending and len(running) < NPROC:
                i, spec = pending.pop(0)
                d = os.path.join(work, "s%04d" % i)
                os.makedirs(d)
                sp = os.path.join(d, "spec.json")
                with open(sp, "w") as f:
                    f.write(jdump(spec))
                env = worker_env(root, spec.get("env"))
                log = open(os.path.join(d, "log.txt"), "w")
                p = subprocess.Popen([PY, "-m", "vmon.worker", prop, sp, d], cwd=VERIF, env=env,
                                     stdout=log, stderr=subprocess.STDOUT)
                running.append((i, p, d, time.time(), float(spec.get("timeout_s", 1800)), log))
            time.sleep(0.05)
            still = []
            for (i, p, d, t0, to, log) in running:
                rc = p.poll()
                if rc is None:
                    if time.time() - t0 > to:
                        p.kill()
                        p.wait()
                        log.close()
                        results[i] = {"status": "timeout", "dir": d, "spec": specs[i]}
                    else:
                        still.append((i, p, d, t0, to, log))
                    continue
                log.close()
                rp = os.path.join(d, "result.json")
                if os.path.exists(rp):
                    with open(rp) as f:
                        r = json.load(f)
                    try:
                        r["_hashes"] = np.load(os.path.join(d, "hashes.npy"))
                    except OSError:
                        r["_hashes"] = np.zeros(0, dtype=np.int64)
                    results[i] = r
                else:
                    tail = ""
                    try:
                        with open(os.path.join(d, "log.txt")) as f:
                            tail = f.read()[-3000:]
                    except OSError:
                        pass
                    results[i] = {"status": "died", "rc": rc, "tail": tail, "spec": specs[i]}
            running = still
    finally:
        shutil.rmtree(work, ignore_errors=True)
    return results


def merge(results):
    m = {"evaluations": 0, "clauses": {}, "classes": {}, "samples": [], "violations": [],
         "viol_counts": {}, "inconclusive": [], "extra": {}, "notes": [], "per_shard": []}
    hs = []
    for r in results:
        st = r.get("status")
        if st in ("timeout", "died"):
            why = "worker %s (shard spec %s)" % (st, jdump(r.get("spec"))[:200])
            if st == "died":
                why += " rc=%s tail=%s" % (r.get("rc"), r.get("tail", "")[-600:])
            m["inconclusive"].append(why)
            continue
        m["evaluations"] += r["evaluations"]
        for k in ("clauses", "classes", "viol_counts"):
            for a, b in r[k].items():
                m[k][a] = m[k].get(a, 0) + b
        for g, dd in r["extra"].items():
            if isinstance(dd, dict):
                t = m["extra"].setdefault(g, {})
                for a, b in dd.items():
                    if g.startswith("max_"):
                        t[a] = max(t.get(a, b), b)
                    elif isinstance(b, (int, float)) and not isinstance(b, bool):
                        t[a] = t.get(a, 0) + b
                    else:
                        t[a] = b
            elif isinstance(dd, list):
                m["extra"].setdefault(g, []).extend(dd)
            else:
                m["extra"][g] = dd
        if len(m["samples"]) < 8:
            m["samples"].extend(r["samples"][:max(1, 8 // max(1, len(results)))])
        m["violations"].extend(r["violations"])
        for x in r["inconclusive"]:
            if x not in m["inconclusive"]:
                m["inconclusive"].append(x)
        m["notes"].extend(r["notes"])
        hs.append(r["_hashes"])
        m["per_shard"].append({"shard": r["shard"], "evaluations": r["evaluations"], "wall_s": round(r["wall_s"], 2)})
    allh = np.concatenate(hs) if hs else np.zeros(0, dtype=np.int64)
    m["distinct_nontrivial"] = int(np.unique(allh).size) + sum(int(r.get("enum_distinct", 0)) for r in results
                                                               if r.get("status") not in ("timeout", "died"))
    return m


def main(argv=None):
    ap = argparse.ArgumentParser()
    ap.add_argument("prop")
    ap.add_argument("--tier", default=os.environ.get("VERIF_TIER", "quick"), choices=["quick", "thorough"])
    ap.add_argument("--replay", default=None)
    ap.add_argument("--no-evidence", action="store_true")
    a = ap.parse_args(argv)
    prop = a.prop.upper()
    seed = int(os.environ.get("VERIF_SEED", "0") or 0)
    root = repo_root()
    t0 = time.time()
    os.makedirs(os.path.join(VERIF, ".cache"), exist_ok=True)
    prune_caches()
    mod = __import__("vmon.props." + prop.lower(), fromlist=["x"])
    meta = mod.META

    if a.replay:
        with open(a.replay) as f:
            rep = json.load(f)
        spec = {"tier": rep.get("tier", a.tier), "seed": rep.get("seed", seed), "shard": 0,
                "replay": rep["case"], "replay_clause": rep.get("clause")}
        if rep.get("env"):
            spec["env"] = rep["env"]
        specs = [spec]
    else:
        specs = mod.plan(a.tier, seed)
        for i, s in enumerate(specs):
            s.setdefault("tier", a.tier)
            s.setdefault("seed", seed)
            s.setdefault("shard", i)

    results = run_workers(prop, specs, root)
    m = merge(results)
    if hasattr(mod, "finalize") and not a.replay:
        mod.finalize(m, a.tier, results)
    if not a.replay:
        for c in getattr(mod, "REQUIRED_CLAUSES", []):
            if m["clauses"].get(c, 0) == 0:
                m["inconclusive"].append("deciding monitor never evaluated: clause %s" % c)
        for c in getattr(mod, "REQUIRED_CLASSES", []):
            if m["classes"].get(c, 0) == 0:
                m["inconclusive"].append("required input class never hit: %s" % c)
        if m["evaluations"] == 0:
            m["inconclusive"].append("no case was executed")

    # ---- reach: the public entry points the property is anchored in must have been entered (evidence of a non-vacuous run) ----
    req_reach = getattr(mod, "REQUIRED_REACH", [])
    if req_reach and m["extra"].get("reach_functions_entered", {}).get("count", 0) > 0 and a.replay is None:
        seen = m["extra"].get("reach_calls", {})
        def _reached(r):
            # matched by method name within the package directory: WHICH class or module defines a public entry point is the
            # implementation's business (an override in a subclass, a helper module)
            pkg, name = r.split("/")[0], r.split(":")[1].split(".")[-1]
            return any(k.startswith(pkg + "/") and k.split(":")[1].split(".")[-1] == name for k in seen)
        miss = [r for r in req_reach if not _reached(r)]
        m["extra"]["required_entry_points_reached"] = {"required": len(req_reach), "reached": len(req_reach) - len(miss)}
        if miss:
            m["inconclusive"].append("anchored entry points never entered by the first shard's workload: %s" % ", ".join(miss))
    # ---- classify violations against the committed known-findings file ----
    known, _fixed = load_known()
    known_keys = {(k["property"], k["key"]): k for k in known}
    new_viol = []
    known_hit = {}
    for v in m["violations"]:
        kk = (prop, v["key"])
        if kk in known_keys:
            known_hit.setdefault(v["key"], v)
        else:
            new_viol.append(v)
    n_new = sum(c for k, c in m["viol_counts"].items() if (prop, k.split("|", 1)[1]) not in known_keys)
    n_known = sum(c for k, c in m["viol_counts"].items() if (prop, k.split("|", 1)[1]) in known_keys)

    # every listed finding of this property is announced on every run (observed or not); a listed finding never fails the run
    for (kp, key), entry in sorted(known_keys.items()):
        if kp == prop:
            print("KNOWN-FINDING: property=%s %s [key=%s observed_in_this_run=%s]" % (prop, entry["what"], key, "yes" if key in known_hit else "no"))

    rdir = os.path.join(VERIF, "replays", prop)
    printed = set()
    if new_viol:
        os.makedirs(rdir, exist_ok=True)
    for v in new_viol:
        tag = "%s|%s" % (v["clause"], v["key"])
        if tag in printed and len(printed) > 0:
            continue
        printed.add(tag)
        name = "%s_%s_seed%d_%d.json" % (a.tier, "".join(ch if ch.isalnum() else "_" for ch in tag)[:80], seed, len(printed))
        path = os.path.join(rdir, name)
        shard_env = None
        rep = {"property": prop, "clause": v["clause"], "key": v["key"], "tier": a.tier, "seed": seed,
               "detail": v["detail"], "case": v["case"], "repo_root": root,
               "count_this_run": m["viol_counts"].get(tag)}
        if isinstance(v["case"], dict) and v["case"].get("_env"):
            rep["env"] = v["case"]["_env"]
        with open(path, "w") as f:
            f.write(jdump(rep, indent=1))
        print("VIOLATION property=%s replay=%s" % (prop, path))
        print("  clause=%s key=%s count=%s detail=%s" % (v["clause"], v["key"], m["viol_counts"].get(tag), jdump(v["detail"])[:400]))

    verdict = "held"
    rc = 0
    if new_viol:
        verdict, rc = "violated", 1
    elif m["inconclusive"]:
        verdict, rc = "inconclusive", 2
        for r in m["inconclusive"]:
            print("INCONCLUSIVE property=%s reason=%s" % (prop, r[:600]))

    wall = time.time() - t0
    if not a.replay and not a.no_evidence:
        cov = {
            "evaluations": int(m["evaluations"]),
            "distinct_nontrivial": int(m["distinct_nontrivial"]),
            "rule": meta["rule"],
            "samples": m["samples"][:8] or ["<none>"],
            "clause_evaluations": m["clauses"],
            "input_classes": m["classes"],
            "violations_by_mechanism": m["viol_counts"],
            "known_findings_seen": sorted(known_hit),
            "verdict": verdict,
            "inconclusive_reasons": m["inconclusive"],
            "shards": len(specs),
            "per_shard": m["per_shard"][:64],
            "repo_root": root,
            "jit_source_hash": jit_source_hash(root),
        }
        for g, dd in m["extra"].items():
            cov[g] = dd
        if m.get("exhaustive") is not None:
            cov["exhaustive"] = bool(m["exhaustive"])
        ev = {
            "property_id": prop, "tier": a.tier, "seed": seed, "level": meta.get("level", "exploration"),
            "coverage": cov, "assumptions": meta.get("assumptions", []), "wall_s": round(wall, 2),
            "violations": int(n_new),
        }
        os.makedirs(os.path.join(VERIF, "evidence"), exist_ok=True)
        with open(os.path.join(VERIF, "evidence", prop + ".json"), "w") as f:
            f.write(jdump(ev, indent=1))
    print("%s property=%s tier=%s seed=%d evaluations=%d distinct_nontrivial=%d new_violations=%d known=%d wall=%.1fs"
          % (verdict.upper(), prop, a.tier, seed, m["evaluations"], m["distinct_nontrivial"], n_new, n_known, wall))
    if m["notes"] and rc != 0:
        eprint("\n".join(m["notes"][:3])[-4000:])
    return rc


if __name__ == "__main__":
    sys.exit(main())
