"""Stewart platform descriptions, construction of real SP objects and the geometric model (C09-C11, C17)."""
import json
import math
import os
import tempfile

import numpy as np

from . import gen
from .common import VERIF
from .oracle import se3

PI = math.pi


def gen_geometry(rng, kind=None):
    """Parametric geometry inside the ranges of C09."""
    rb = float(rng.uniform(0.2, 2.0))
    ratio = float(rng.uniform(0.3, 1.0))
    rt = rb * ratio
    lmin = float(rng.uniform(0.8, 1.5)) * rb
    lmax = float(rng.uniform(1.5, 2.0)) * lmin
    g = {
        "kind": kind or gen.pick(rng, ["newSP", "newSP", "loadSP", "direct"]),
        "rb": rb, "rt": rt,
        "bspace": float(rng.uniform(5, 40)), "tspace": float(rng.uniform(5, 40)),
        "bth": float(rng.uniform(0, 0.1)) * rb, "tth": float(rng.uniform(0, 0.1)) * rb,
        "lmin": lmin, "lmax": lmax,
        "rot": int(rng.choice([1, -1])),
        "base": np.concatenate([rng.uniform(-3, 3, 3), gen.rotvec(rng, ["zero", "generic2", "generic"])]).tolist() if rng.random() < 0.7 else [0.0] * 6,
        "masses": {"top": float(rng.uniform(0.5, 20)), "bot": float(rng.uniform(0.5, 20)), "shaft": float(rng.uniform(0.1, 5)),
                   "motor": float(rng.uniform(0.1, 5)), "shaft_cog": float(rng.uniform(0.05, 0.4)) * lmin, "motor_cog": float(rng.uniform(0.05, 0.4)) * lmin},
    }
    return g


def param_joints(g):
    """Plate-fixed joint coordinates from the parametric description (own formula: circle radius, z offset, spacing pattern)."""
    bg = g["bspace"] / 2 * PI / 180
    tg = g["tspace"] / 2 * PI / 180
    s120, s60 = 2 * PI / 3, PI / 3
    ba = np.array([-bg, bg, s120 - bg, s120 + bg, 2 * s120 - bg, 2 * s120 + bg])
    ta = np.array([-s60 + tg, s60 - tg, s60 + tg, s60 + s120 - tg, s60 + s120 + tg, -s60 - tg])
    if g["rot"] == -1:
        ba, ta = (np.array([-s60 + tg, s60 - tg, s60 + tg, s60 + s120 - tg, s60 + s120 + tg, -s60 - tg]),
                  np.array([-bg, bg, s120 - bg, s120 + bg, 2 * s120 - bg, 2 * s120 + bg]))
    bj = np.stack([g["rb"] * np.cos(ba), g["rb"] * np.sin(ba), np.full(6, g["bth"])])
    tj = np.stack([g["rt"] * np.cos(ta), g["rt"] * np.sin(ta), np.full(6, -g["tth"])])
    return bj, tj


def neutral_height(g, bj, tj):
    half = (g["lmin"] + g["lmax"]) / 2
    if g["rot"] == -1:
        d2 = (bj[0, 0] - tj[0, 0]) ** 2 + (bj[1, 0] - tj[1, 0]) ** 2
    else:
        d2 = (tj[0, 0] - bj[0, 0]) ** 2 + (tj[1, 0] - bj[1, 0]) ** 2
    return math.sqrt(half ** 2 - d2) + g["bth"] + g["tth"]


class SPModel:
    def __init__(self, g):
        self.g = g
        self.bj, self.tj = param_joints(g)
        self.h = neutral_height(g, self.bj, self.tj)
        self.B = se3.taa_to_T(g["base"])
        self.T = self.B @ se3.rp(np.eye(3), [0, 0, self.h])

    def lengths(self, B=None, T=None):
        B = self.B if B is None else B
        T = self.T if T is None else T
        bs = B[:3, :3] @ self.bj + B[:3, 3:4]
        ts = T[:3, :3] @ self.tj + T[:3, 3:4]
        return np.linalg.norm(ts - bs, axis=0), bs, ts

    def spin(self, rot):
        Rz = se3.exp3([0, 0, rot])
        self.bj = Rz @ self.bj
        self.tj = Rz @ self.tj

    def neutral_rel(self):
        return se3.rp(np.eye(3), [0, 0, self.h])


def build_sp(g, bm):
    from basic_robotics.kinematics import sp_model
    tm = bm["tm"]
    base = tm(np.array(g["base"], dtype=float))
    m = g["masses"]
    if g["kind"] == "direct":
        bj, tj = param_joints(g)
        h = neutral_height(g, bj, tj)
        top = base @ tm(np.array([0.0, 0.0, h, 0.0, 0.0, 0.0]))
        sp = sp_model.SP(bj.copy(), tj.copy(), base, top, g["lmin"], g["lmax"], g["bth"], g["tth"], "direct")
        sp.setMasses(m["bot"], m["shaft"], m["motor"], top_plate_mass=m["top"])
        sp.setCOG(m["motor_cog"], m["shaft_cog"])
        return sp
    if g["kind"] == "loadSP":
        d = {"Name": "gen", "Type": "SP",
             "BottomPlate": {"Thickness": g["bth"], "JointRadius": g["rb"], "JointSpacing": g["bspace"], "Mass": m["bot"]},
             "TopPlate": {"Thickness": g["tth"], "JointRadius": g["rt"], "JointSpacing": g["tspace"], "Mass": m["top"]},
             "Actuators": {"MinExtension": g["lmin"], "MaxExtension": g["lmax"], "MotorMass": m["motor"], "ShaftMass": m["shaft"], "ForceLimit": 800,
                           "MotorCOGD": m["motor_cog"], "ShaftCOGD": m["shaft_cog"]},
             "Drawing": {"TopRadius": 1, "BottomRadius": 1, "ShaftRadius": 0.1, "MotorRadius": 0.2},
             "Settings": {"MaxAngleDev": 55, "GenerateActuators": 0, "IgnoreRestHeight": 1, "UseSpin": 0, "AssignMasses": 1, "InferActuatorCOG": 1},
             "Params": {"RestHeight": 1.2, "Spin": 30}}
        fd, path = tempfile.mkstemp(suffix=".json", dir=os.path.join(VERIF, ".cache"))
        try:
            with os.fdopen(fd, "w") as f:
                json.dump(d, f)
            sp = sp_model.loadSP(os.path.basename(path), os.path.dirname(path) + "/", base, g["rot"])
        finally:
            os.remove(path)
        return sp
    sp = sp_model.newSP(g["rb"], g["rt"], g["bspace"], g["tspace"], g["bth"], g["tth"], m["shaft"], m["motor"], m["top"], m["bot"],
                        m["motor_cog"], m["shaft_cog"], g["lmin"], g["lmax"], base, "gen", g["rot"])
    return sp


def gen_rel_pose(rng, h, scale=1.0):
    """Relative top pose inside the property's workspace: lateral offset norm <= 20% h, height within 15% h, rotation comps <= 0.3."""
    lat = gen.rand_unit(rng, 2) * rng.uniform(0, 0.2 * scale) * h
    dz = rng.uniform(-0.15, 0.15) * scale * h
    rv = rng.uniform(-0.3, 0.3, 3) * scale
    if rng.random() < 0.1:
        rv[:] = 0
    rv = np.where((np.abs(rv) > 0) & (np.abs(rv) < 1e-4), 0.0, rv)
    return np.concatenate([[lat[0], lat[1], h + dz], rv])


def load_bm():
    from .worker import import_target
    import_target()
    from .jitcache import enable_all
    enable_all()
    from basic_robotics.general import tm, fsr, Wrench
    return {"tm": tm, "fsr": fsr, "Wrench": Wrench}
