"""Turn on on-disk caching for the @jit kernels the repository leaves uncached.

Pure start-up optimisation for workers (15 s -> 2 s): the machine code is the same, the cache directory
is keyed by the sha256 of both JIT source files plus the Numba flags (common.numba_cache_dir), so an edited
source can never be served stale code.  Disabled with VERIF_NO_JITCACHE=1.
"""
import os


def enable_all():
    if os.environ.get("VERIF_NO_JITCACHE") or os.environ.get("NUMBA_DISABLE_JIT") == "1":
        return 0
    n = 0
    try:
        from numba.core.dispatcher import Dispatcher
    except Exception:
        return 0
    import basic_robotics.modern_robotics_numba.modern_high_performance as a
    import basic_robotics.general.faser_high_performance as b
    for mod in (a, b):
        for name, obj in vars(mod).items():
            if isinstance(obj, Dispatcher) and obj.py_func.__module__ == mod.__name__:
                try:
                    if not obj.stats.cache_path and not obj.overloads:
                        obj.enable_caching()
                        n += 1
                except Exception:
                    pass
    return n
