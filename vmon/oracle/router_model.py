"""Sequential reference model of the Comms hub's rule tables (oracle for C19)."""


class RouterModel:
    def __init__(self, endpoints):
        self.endpoints = list(endpoints)
        self.fwd = {}        # input endpoint -> ordered list of destination endpoints
        self.sinks = {}      # input endpoint -> ordered list of sink ids
        self.sources = {}    # output endpoint -> ordered list of source ids

    def key(self):
        return (tuple(sorted((k, tuple(v)) for k, v in self.fwd.items() if v)),
                tuple(sorted((k, tuple(v)) for k, v in self.sinks.items() if v)),
                tuple(sorted((k, tuple(v)) for k, v in self.sources.items() if v)))

    def set_forward(self, i, o):
        if i not in self.endpoints or o not in self.endpoints:
            return False
        lst = self.fwd.setdefault(i, [])
        if o in lst:
            return False
        lst.append(o)
        return True

    def delete_forward(self, i, o):
        if o not in self.endpoints:
            return False
        lst = self.fwd.get(i, [])
        if o in lst:
            lst.remove(o)
            return True
        return False

    def set_sink(self, i, sid):
        if i not in self.endpoints or sid is None:
            return False
        lst = self.sinks.setdefault(i, [])
        if sid in lst:
            return False
        lst.append(sid)
        return True

    def set_source(self, o, qid):
        if o not in self.endpoints or qid is None:
            return False
        lst = self.sources.setdefault(o, [])
        if qid in lst:
            return False
        lst.append(qid)
        return True

    def deliveries(self, endpoint, msg):
        """Expected multiset of deliveries for a message received on `endpoint`."""
        if msg is None or endpoint not in self.endpoints:
            return []
        out = [("send", o, msg) for o in self.fwd.get(endpoint, [])]
        out += [("sink", s, msg) for s in self.sinks.get(endpoint, [])]
        return out
