"""URDF semantics computed straight from the XML (oracle for C13, arm descriptions for C05-C08).

A serial chain of joints; joint j: origin (xyz translation, then fixed-axis roll-pitch-yaw, i.e.
R = Rz(yaw) Ry(pitch) Rx(roll)) followed, for revolute/continuous joints, by a rotation about `axis`
(default (1,0,0)) expressed in the joint frame.  T(theta) = prod_j origin_j . Rot(axis_j, theta_j).
Optional elements/attributes default to identity / zero / the x axis.  Own parser: does not import the library.
"""
import math
import xml.etree.ElementTree as ET

import numpy as np

from . import se3


def _floats(s, n, default):
    if s is None:
        return np.array(default, dtype=float)
    v = np.array([float(x) for x in s.split()], dtype=float)
    assert v.size == n
    return v


def rpy_matrix(rpy):
    r, p, y = rpy
    return se3.exp3([0, 0, y]) @ se3.exp3([0, p, 0]) @ se3.exp3([r, 0, 0])


class Joint:
    def __init__(self, el):
        self.name = el.get("name")
        self.type = el.get("type")
        o = el.find("origin")
        self.xyz = _floats(o.get("xyz") if o is not None else None, 3, [0, 0, 0])
        self.rpy = _floats(o.get("rpy") if o is not None else None, 3, [0, 0, 0])
        a = el.find("axis")
        self.axis = _floats(a.get("xyz") if a is not None else None, 3, [1, 0, 0])
        self.parent = el.find("parent").get("link")
        self.child = el.find("child").get("link")
        lim = el.find("limit")
        self.lower = float(lim.get("lower")) if lim is not None and lim.get("lower") is not None else None
        self.upper = float(lim.get("upper")) if lim is not None and lim.get("upper") is not None else None

    def origin(self):
        return se3.rp(rpy_matrix(self.rpy), self.xyz)

    @property
    def moving(self):
        return self.type in ("revolute", "continuous")


class Chain:
    """The single serial chain of a URDF file, root to leaf."""

    def __init__(self, path):
        root = ET.parse(path).getroot()
        joints = [Joint(j) for j in root if j.tag == "joint"]
        children = {j.child for j in joints}
        parents = {j.parent for j in joints}
        roots = [p for p in parents if p not in children]
        assert len(roots) == 1, "not a single-rooted tree: %r" % roots
        by_parent = {}
        for j in joints:
            by_parent.setdefault(j.parent, []).append(j)
        self.joints = []
        link = roots[0]
        while link in by_parent:
            js = by_parent[link]
            assert len(js) == 1, "side branch at link %s" % link
            self.joints.append(js[0])
            link = js[0].child
        self.moving = [j for j in self.joints if j.moving]
        self.num_dof = len(self.moving)
        self.joint_names = [j.name for j in self.moving]
        self.lower = [j.lower for j in self.moving]
        self.upper = [j.upper for j in self.moving]

    def fk(self, theta):
        T = np.eye(4)
        k = 0
        for j in self.joints:
            T = T @ j.origin()
            if j.moving:
                T = T @ se3.rp(se3.exp3(j.axis * theta[k]), np.zeros(3))
                k += 1
        return T

    def joint_frames_home(self):
        """Frame of every moving joint at theta = 0 (after its origin), and the tool frame."""
        T = np.eye(4)
        frames = []
        for j in self.joints:
            T = T @ j.origin()
            if j.moving:
                frames.append(T.copy())
        return frames, T

    def base_offset(self):
        """Product of the fixed-joint origins that precede the first moving joint."""
        T = np.eye(4)
        for j in self.joints:
            if j.moving:
                break
            T = T @ j.origin()
        return T

    def screws(self):
        """Space screws at the home configuration (6 x n) and the home tool pose."""
        frames, M = self.joint_frames_home()
        S = np.zeros((6, self.num_dof))
        for i, (F, j) in enumerate(zip(frames, self.moving)):
            w = F[:3, :3] @ j.axis
            S[:3, i] = w
            S[3:, i] = -np.cross(w, F[:3, 3])
        return S, M
