"""Exact segment versus closed axis-aligned box intersection (oracle for C15).

Parametric slab clipping decided in exact arithmetic: P(t) = a + t (b - a), t in [0, 1].
Per axis the admissible t form a closed interval with rational end points; the segment
meets the box iff the intersection of the four intervals is non-empty, i.e. every lower
bound <= every upper bound, compared by cross-multiplication (no division, no rounding).
This is deliberately NOT the separating-axis formulation the library uses.
"""
from fractions import Fraction

import numpy as np


def hit_exact(a, b, lo, hi):
    """a, b, lo, hi: sequences of 3 numbers (ints, floats or Fractions). Exact."""
    a = [Fraction(x) for x in a]
    b = [Fraction(x) for x in b]
    lo = [Fraction(x) for x in lo]
    hi = [Fraction(x) for x in hi]
    lowers = [(Fraction(0), Fraction(1))]      # value n/d with d > 0
    uppers = [(Fraction(1), Fraction(1))]
    for k in range(3):
        l, h = (lo[k], hi[k]) if lo[k] <= hi[k] else (hi[k], lo[k])
        d = b[k] - a[k]
        if d == 0:
            if a[k] < l or a[k] > h:
                return False
            continue
        n1, n2 = l - a[k], h - a[k]
        if d < 0:
            n1, n2, d = -n2, -n1, -d        # divide by positive d; interval [n1/d, n2/d]
        lowers.append((n1, d))
        uppers.append((n2, d))
    for (n, d) in lowers:
        for (m, e) in uppers:
            if n * e > m * d:
                return False
    return True


def hit_lattice(A, B, LO, HI):
    """Vectorised exact version for integer inputs: arrays (..., 3) of int64 -> bool array."""
    A = np.asarray(A, dtype=np.int64)
    B = np.asarray(B, dtype=np.int64)
    LO = np.asarray(LO, dtype=np.int64)
    HI = np.asarray(HI, dtype=np.int64)
    D = B - A
    shape = np.broadcast(A[..., 0], B[..., 0], LO[..., 0], HI[..., 0]).shape
    ok = np.ones(shape, dtype=bool)
    lows = [(np.zeros(shape, dtype=np.int64), np.ones(shape, dtype=np.int64))]
    ups = [(np.ones(shape, dtype=np.int64), np.ones(shape, dtype=np.int64))]
    for k in range(3):
        d = np.broadcast_to(D[..., k], shape)
        a = np.broadcast_to(A[..., k], shape)
        l = np.broadcast_to(LO[..., k], shape)
        h = np.broadcast_to(HI[..., k], shape)
        zero = d == 0
        ok &= ~(zero & ((a < l) | (a > h)))
        n1 = l - a
        n2 = h - a
        neg = d < 0
        n1s = np.where(neg, -n2, n1)
        n2s = np.where(neg, -n1, n2)
        ds = np.where(neg, -d, d)
        # zero-direction axes contribute the trivial bounds 0 <= t <= 1
        n1s = np.where(zero, 0, n1s)
        n2s = np.where(zero, 1, n2s)
        ds = np.where(zero, 1, ds)
        lows.append((n1s, ds))
        ups.append((n2s, ds))
    for (n, d) in lows:
        for (m, e) in ups:
            ok &= n * e <= m * d
    return ok


def selfcheck(n=3000, seed=0):
    rng = np.random.default_rng(seed)
    bad = 0
    for _ in range(n):
        a = rng.integers(-3, 4, 3)
        b = rng.integers(-3, 4, 3)
        lo = rng.integers(-2, 3, 3)
        hi = rng.integers(-2, 3, 3)
        lo, hi = np.minimum(lo, hi), np.maximum(lo, hi)
        e = hit_exact(a.tolist(), b.tolist(), lo.tolist(), hi.tolist())
        v = bool(hit_lattice(a, b, lo, hi))
        # brute force: dense rational sampling of t (denominators up to 12 cover all lattice crossings here)
        bf = False
        for den in range(1, 13):
            for num in range(den + 1):
                t = Fraction(num, den)
                p = [Fraction(int(a[k])) + t * int(b[k] - a[k]) for k in range(3)]
                if all(lo[k] <= p[k] <= hi[k] for k in range(3)):
                    bf = True
        if bf and not e:
            bad += 1
        if e != v:
            bad += 1
    return bad
