"""Independent SE(3)/so(3) algebra used ONLY as an oracle.

Nothing here imports the library under test.  Rotations come from
scipy.spatial.transform.Rotation (quaternion based, valid for every angle), the
translation part of exp/log uses closed forms with Taylor series near zero, and
`selfcheck()` cross-checks them against scipy.linalg.expm / logm.
"""
import math
import numpy as np
from scipy.spatial.transform import Rotation as _R

I3 = np.eye(3)
I4 = np.eye(4)


def hat3(w):
    w = np.asarray(w, dtype=float).reshape(3)
    return np.array([[0.0, -w[2], w[1]], [w[2], 0.0, -w[0]], [-w[1], w[0], 0.0]])


def vee3(W):
    W = np.asarray(W, dtype=float)
    return np.array([W[2, 1], W[0, 2], W[1, 0]])


def hat6(V):
    """[V] for V = (omega, v)  (Modern Robotics ordering: angular first)."""
    V = np.asarray(V, dtype=float).reshape(6)
    M = np.zeros((4, 4))
    M[:3, :3] = hat3(V[:3])
    M[:3, 3] = V[3:]
    return M


def vee6(M):
    M = np.asarray(M, dtype=float)
    return np.array([M[2, 1], M[0, 2], M[1, 0], M[0, 3], M[1, 3], M[2, 3]])


def exp3(w):
    """Rotation matrix of rotation vector w (exact for every |w|)."""
    w = np.asarray(w, dtype=float).reshape(3)
    return _R.from_rotvec(w).as_matrix()


def log3(Rm):
    """Rotation vector (|w| <= pi) of a rotation matrix."""
    return _R.from_matrix(np.asarray(Rm, dtype=float)).as_rotvec()


def rot_angle(Rm):
    """Rotation angle in [0, pi], computed robustly (atan2 of skew/sym parts)."""
    Rm = np.asarray(Rm, dtype=float)
    s = 0.5 * np.linalg.norm(vee3(Rm - Rm.T))
    c = 0.5 * (np.trace(Rm) - 1.0)
    return math.atan2(s, c)


def _AB(theta):
    """A = (1-cos t)/t^2, B = (t - sin t)/t^3 with series for small t."""
    t = theta
    if t < 1e-2:
        t2 = t * t
        A = 0.5 - t2 / 24.0 + t2 * t2 / 720.0 - t2 * t2 * t2 / 40320.0
        B = 1.0 / 6.0 - t2 / 120.0 + t2 * t2 / 5040.0 - t2 * t2 * t2 / 362880.0
    else:
        A = (1.0 - math.cos(t)) / (t * t)
        B = (t - math.sin(t)) / (t * t * t)
    return A, B


def Gmat(w):
    """V(w) such that exp6((w,v)) has translation V(w) v."""
    w = np.asarray(w, dtype=float).reshape(3)
    t = float(np.linalg.norm(w))
    A, B = _AB(t)
    W = hat3(w)
    return I3 + A * W + B * (W @ W)


def exp6(V):
    V = np.asarray(V, dtype=float).reshape(6)
    T = np.eye(4)
    T[:3, :3] = exp3(V[:3])
    T[:3, 3] = Gmat(V[:3]) @ V[3:]
    return T


def Ginv(w):
    w = np.asarray(w, dtype=float).reshape(3)
    t = float(np.linalg.norm(w))
    W = hat3(w)
    if t < 1e-2:
        t2 = t * t
        c = 1.0 / 12.0 + t2 / 720.0 + t2 * t2 / 30240.0 + t2 * t2 * t2 / 1209600.0
    else:
        c = (1.0 / t - 0.5 / math.tan(t / 2.0)) / t
    return I3 - 0.5 * W + c * (W @ W)


def log6(T):
    """Twist (w, v) with |w| <= pi such that exp6 = T."""
    T = np.asarray(T, dtype=float)
    w = log3(T[:3, :3])
    v = Ginv(w) @ T[:3, 3]
    return np.concatenate([w, v])


def rp(Rm, p):
    T = np.eye(4)
    T[:3, :3] = Rm
    T[:3, 3] = np.asarray(p, dtype=float).reshape(3)
    return T


def inv(T):
    T = np.asarray(T, dtype=float)
    Rm = T[:3, :3]
    Ti = np.eye(4)
    Ti[:3, :3] = Rm.T
    Ti[:3, 3] = -Rm.T @ T[:3, 3]
    return Ti


def Ad(T):
    T = np.asarray(T, dtype=float)
    Rm = T[:3, :3]
    A = np.zeros((6, 6))
    A[:3, :3] = Rm
    A[3:, 3:] = Rm
    A[3:, :3] = hat3(T[:3, 3]) @ Rm
    return A


def ad(V):
    V = np.asarray(V, dtype=float).reshape(6)
    a = np.zeros((6, 6))
    a[:3, :3] = hat3(V[:3])
    a[3:, 3:] = hat3(V[:3])
    a[3:, :3] = hat3(V[3:])
    return a


def taa_to_T(taa):
    """The library's 'TAA' six-vector (x, y, z, rotation vector) -> 4x4."""
    taa = np.asarray(taa, dtype=float).reshape(6)
    return rp(exp3(taa[3:]), taa[:3])


def T_to_taa(T):
    T = np.asarray(T, dtype=float)
    return np.concatenate([T[:3, 3], log3(T[:3, :3])])


def is_rot(Rm, tol=1e-9):
    Rm = np.asarray(Rm, dtype=float)
    return (Rm.shape == (3, 3) and np.all(np.isfinite(Rm))
            and np.abs(Rm.T @ Rm - I3).max() <= tol
            and abs(np.linalg.det(Rm) - 1.0) <= tol)


def is_se3(T, tol=1e-9):
    T = np.asarray(T, dtype=float)
    return (T.shape == (4, 4) and np.all(np.isfinite(T)) and is_rot(T[:3, :3], tol)
            and np.array_equal(T[3], np.array([0.0, 0.0, 0.0, 1.0])))


def pose_dist(T1, T2):
    """(rotation angle between, translation distance)."""
    T1 = np.asarray(T1, dtype=float)
    T2 = np.asarray(T2, dtype=float)
    return rot_angle(T1[:3, :3].T @ T2[:3, :3]), float(np.linalg.norm(T1[:3, 3] - T2[:3, 3]))


def poe_space(M, S, theta):
    """prod_i exp([S_i] theta_i) . M  (S is 6 x n, columns (w, v))."""
    T = np.eye(4)
    S = np.asarray(S, dtype=float)
    for i in range(len(theta)):
        T = T @ exp6(S[:, i] * theta[i])
    return T @ np.asarray(M, dtype=float)


def jac_space(S, theta):
    S = np.asarray(S, dtype=float)
    n = S.shape[1]
    J = np.zeros((6, n))
    T = np.eye(4)
    for i in range(n):
        J[:, i] = Ad(T) @ S[:, i]
        T = T @ exp6(S[:, i] * theta[i])
    return J


def selfcheck(n=200, seed=1):
    """Cross-check the closed forms against scipy expm/logm; returns max error."""
    from scipy.linalg import expm, logm
    rng = np.random.default_rng(seed)
    worst = 0.0
    for k in range(n):
        ang = [1e-9, 1e-5, 1e-3, 0.5, 2.0, 3.0, 3.14][k % 7]
        ax = rng.normal(size=3)
        ax /= np.linalg.norm(ax)
        V = np.concatenate([ax * ang, rng.normal(size=3) * 3])
        T = exp6(V)
        worst = max(worst, np.abs(T - expm(hat6(V))).max())
        worst = max(worst, np.abs(log6(T) - V).max())
        if 1e-4 < ang < 3.1:
            worst = max(worst, np.abs(np.real(logm(T)) - hat6(V)).max())
        worst = max(worst, np.abs(inv(T) @ T - I4).max())
        worst = max(worst, np.abs(Ad(inv(T)) @ Ad(T) - np.eye(6)).max())
    return worst
