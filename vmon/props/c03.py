"""C03 - a tm object's matrix and six-vector always describe the same pose (history monitor)."""
import itertools
import math
import numpy as np
from scipy.spatial.transform import Rotation as Rsc

from .. import gen, tol
from ..oracle import se3

PI = math.pi

META = {
    "level": "exploration",
    "rule": ("register machine over 3 tm objects.  Exhaustive part: every sequence of atomic operations up to length "
             "3 (thorough) / length 2 plus a seeded sample of length 3 (quick) over the operation alphabet "
             "{constructors from 3/6/7-vector list or array, rpy, 4x4, tm; sTM, sTAA, set, t[i]=x, t[a:b]=v, "
             "setQuat, angleMod, copy, inv, @, +, -, *s, /s, abs, //, localToGlobal, globalToLocal} instantiated "
             "on the value palette (angles 0, 1e-7, 1, pi-1e-3, 2pi+0.5; positions 0, 1, -3); random part: "
             "histories of length <= 12 with generic values.  After a step the monitor reads gTM(), gTAA(), t[i], "
             "t[a:b] of every live object, checks the class invariant and the expected pose of the written object "
             "(computed from the operands' previously observed matrix / six-vector).  Non-trivial: the history "
             "applies at least one matrix-side and one vector-side writer to the same register; distinct by the "
             "operation sequence."),
    "assumptions": ["the harness never hands one ndarray to two writers (setters documentedly keep the caller's array)",
                    "slice assignment is exercised with lists, 1-D arrays and (3,1) arrays of matching length only",
                    "exhaustive sequences of length n are checked after their last step; every proper prefix is itself an "
                    "enumerated sequence"],
}
REQUIRED_CLASSES = ["history:near_half_turn"]
REQUIRED_REACH = ['general/faser_transform.py:tm.__init__', 'general/faser_transform.py:tm.sTM', 'general/faser_transform.py:tm.sTAA', 'general/faser_transform.py:tm.__setitem__', 'general/faser_transform.py:tm.setQuat', 'general/faser_transform.py:tm.inv', 'general/faser_transform.py:tm.__matmul__', 'general/faser_transform.py:tm.__floordiv__']
REQUIRED_CLAUSES = ["inv.shape", "inv.lastrow", "inv.rot", "inv.pos", "inv.exp", "inv.index", "model.pose"]

# ----------------------------------------------------------------------------- palette
A_ = [0.0, 1e-7, 1.0, PI - 1e-3, 2 * PI + 0.5]
P6 = [
    [0, 0, 0, 0, 0, 0],
    [1, 0, -3, 1e-7, 0, 0],
    [0, 1, 0, 0, 1.0, 0],
    [-3, 1, 1, 0, 0, PI - 1e-3],
    [1, 1, 1, 2 * PI + 0.5, 0, 0],
    [1, -3, 0, 0.6, -0.8, 0],
]
MATRIX_SIDE = {"sTM", "setQuat", "matmul", "rmatmul", "inv", "fdiv_tm", "ctor_mat", "ctor7", "ctor_objarr"}
VECTOR_SIDE = {"sTAA", "set", "setitem", "setslice", "add", "sub", "mul", "div", "abs", "fdiv_s", "ctor6l", "ctor6a", "ctor3",
               "ctor_rpy", "l2g", "g2l", "angleMod", "add_arr"}


def atomic_ops():
    ops = []
    for v in P6:
        ops.append({"op": "sTAA", "t": 0, "v": v})
        ops.append({"op": "sTM", "t": 0, "v": v})
    for v in (P6[1], P6[3], P6[4]):
        ops.append({"op": "ctor6l", "t": 0, "v": v})
        ops.append({"op": "ctor6a", "t": 0, "v": v})
        ops.append({"op": "ctor_mat", "t": 0, "v": v})
        ops.append({"op": "ctor7", "t": 0, "v": v})
        ops.append({"op": "ctor_rpy", "t": 0, "v": v})
    ops.append({"op": "ctor3", "t": 0, "v": [0, 0, PI - 1e-3]})
    ops.append({"op": "ctor3", "t": 0, "v": [2 * PI + 0.5, 0, 0]})
    ops.append({"op": "ctor_tm", "t": 0, "s": 1})
    ops.append({"op": "ctor_objarr", "t": 0, "s": 1})
    for i in (1, 4):
        for x in (1e-7, 1.0, 2 * PI + 0.5):
            ops.append({"op": "set", "t": 0, "i": i, "x": x})
            ops.append({"op": "setitem", "t": 0, "i": i, "x": x})
    ops.append({"op": "setitem", "t": 0, "i": 5, "x": PI - 1e-3})
    ops.append({"op": "setitem", "t": 0, "i": 2, "x": -3.0})
    ops.append({"op": "setslice", "t": 0, "a": 0, "b": 3, "v": [1, -3, 0], "form": "list"})
    ops.append({"op": "setslice", "t": 0, "a": 3, "b": 6, "v": [0, 1.0, 0], "form": "col"})
    ops.append({"op": "setslice", "t": 0, "a": 3, "b": 6, "v": [2 * PI + 0.5, 0, 1e-7], "form": "arr"})
    ops.append({"op": "setslice", "t": 0, "a": 2, "b": 5, "v": [1, 1, PI - 1e-3], "form": "arr"})
    ops.append({"op": "setslice", "t": 0, "a": 0, "b": 6, "v": P6[3], "form": "list"})
    for w in ([0, 0, 1.0], [PI - 1e-3, 0, 0], [0.6, -0.8, 0]):
        ops.append({"op": "setQuat", "t": 0, "w": w})
    ops.append({"op": "angleMod", "t": 0})
    for name in ("copy", "inv", "abs"):
        ops.append({"op": name, "t": 0, "s": 0})
    ops.append({"op": "copy", "t": 1, "s": 0})
    for name in ("matmul", "add", "sub", "fdiv_tm", "l2g", "g2l"):
        ops.append({"op": name, "t": 0, "s": 0, "o": 1})
    ops.append({"op": "matmul", "t": 0, "s": 1, "o": 0})
    ops.append({"op": "matmul", "t": 0, "s": 0, "o": 0})
    ops.append({"op": "add", "t": 0, "s": 0, "o": 2})
    ops.append({"op": "l2g", "t": 0, "s": 2, "o": 0})
    ops.append({"op": "g2l", "t": 0, "s": 1, "o": 0})
    ops.append({"op": "matmul_arr", "t": 0, "s": 0, "v": P6[5]})
    ops.append({"op": "add_arr", "t": 0, "s": 0, "v": P6[2]})
    for k in (2.0, -0.5):
        ops.append({"op": "mul", "t": 0, "s": 0, "k": k})
    ops.append({"op": "rmul", "t": 0, "s": 0, "k": 2.0})
    ops.append({"op": "div", "t": 0, "s": 0, "k": 2.0})
    ops.append({"op": "fdiv_s", "t": 0, "s": 0, "k": 2.0})
    ops.append({"op": "setitem", "t": 1, "i": 4, "x": 1.0})
    return ops


ATOMS = atomic_ops()
INIT = [P6[0], P6[5], P6[3]]


HALF_TURN_ANGLES = ["1e-9", "1e-7", "band", "generic2", "pi-1e-6", "pi-1e-7", "pi-1e-9", "near_pi", "near_pi"]


def near_half_turn(rng):
    """Pose whose rotation is within 1e-6 .. 3e-10 rad of a half turn: where the logarithm divides by sin(theta)."""
    w = gen.axis(rng, gen.pick(rng, gen.AXIS_CLASSES)) * (PI - 10 ** rng.uniform(-9.5, -6))
    return np.concatenate([rng.uniform(-10, 10, 3), w]).tolist()


def random_op(rng, half_turn=False):
    def v6():
        if half_turn:
            ac = gen.pick(rng, HALF_TURN_ANGLES)
            return near_half_turn(rng) if ac == "near_pi" else gen.taa(rng, 10.0, [ac]).tolist()
        return gen.taa(rng, 10.0, gen.ANGLE_NAMES).tolist()
    t = int(rng.integers(3))
    s = int(rng.integers(3))
    o = int(rng.integers(3))
    if half_turn:
        k = gen.pick(rng, ["fdiv_tm", "fdiv_tm", "matmul", "matmul", "inv", "matmul_arr", "l2g", "g2l", "sTM", "ctor_mat", "ctor7", "setQuat", "angleMod",
                           "copy", "add_arr", "sub", "rmul"])
    else:
        k = gen.pick(rng, ["sTAA", "sTM", "ctor6l", "ctor6a", "ctor_mat", "ctor7", "ctor_rpy", "ctor3", "ctor_tm", "ctor_objarr", "set",
                           "setitem", "setslice", "setQuat", "angleMod", "copy", "inv", "abs", "matmul", "add", "sub", "fdiv_tm",
                           "l2g", "g2l", "matmul_arr", "add_arr", "mul", "rmul", "div", "fdiv_s"])
    if k in ("sTAA", "sTM", "ctor6l", "ctor6a", "ctor_mat", "ctor7", "ctor_rpy"):
        return {"op": k, "t": t, "v": v6()}
    if k == "ctor3":
        return {"op": k, "t": t, "v": gen.rotvec(rng).tolist()}
    if k in ("ctor_tm", "ctor_objarr", "copy", "inv", "abs"):
        return {"op": k, "t": t, "s": s}
    if k in ("set", "setitem"):
        i = int(rng.integers(6))
        x = float(rng.uniform(-10, 10)) if i < 3 else float(gen.angle(rng, gen.pick(rng, gen.ANGLE_NAMES)) * rng.choice([-1, 1]))
        return {"op": k, "t": t, "i": i, "x": x}
    if k == "setslice":
        a = int(rng.integers(0, 5))
        b = int(rng.integers(a + 1, 7))
        form = gen.pick(rng, ["list", "arr", "col"] if b - a == 3 else ["list", "arr"])
        return {"op": k, "t": t, "a": a, "b": b, "v": v6()[a:b], "form": form}
    if k == "setQuat":
        return {"op": k, "t": t, "w": gen.rotvec(rng).tolist()}
    if k == "angleMod":
        return {"op": k, "t": t}
    if k in ("matmul", "add", "sub", "fdiv_tm", "l2g", "g2l"):
        return {"op": k, "t": t, "s": s, "o": o}
    if k in ("matmul_arr", "add_arr"):
        return {"op": k, "t": t, "s": s, "v": v6()}
    kk = float(rng.choice([2.0, -0.5, 3.0, 0.25, -1.0]))
    return {"op": k, "t": t, "s": s, "k": kk}


# ----------------------------------------------------------------------------- execution
def apply_op(op, regs, tm, fsr):
    """Execute on the real objects. Fresh arrays for every call."""
    k = op["op"]
    t = op["t"]
    if k == "sTAA":
        regs[t].sTAA(np.array(op["v"], dtype=float))
    elif k == "sTM":
        regs[t].sTM(se3.taa_to_T(op["v"]))
    elif k == "ctor6l":
        regs[t] = tm([float(x) for x in op["v"]])
    elif k == "ctor6a":
        regs[t] = tm(np.array(op["v"], dtype=float))
    elif k == "ctor_mat":
        regs[t] = tm(se3.taa_to_T(op["v"]))
    elif k == "ctor7":
        v = op["v"]
        q = Rsc.from_rotvec(v[3:]).as_quat()
        regs[t] = tm([float(x) for x in v[:3]] + [float(x) for x in q])
    elif k == "ctor_rpy":
        regs[t] = tm([float(x) for x in op["v"]], rpy=True)
    elif k == "ctor3":
        regs[t] = tm([float(x) for x in op["v"]])
    elif k == "ctor_tm":
        regs[t] = tm(regs[op["s"]])
    elif k == "ctor_objarr":
        arr = np.empty(1, dtype=object)
        arr[0] = regs[op["s"]]
        regs[t] = tm(arr)
    elif k == "set":
        regs[t].set(op["i"], op["x"])
    elif k == "setitem":
        regs[t][op["i"]] = op["x"]
    elif k == "setslice":
        v = op["v"]
        val = {"list": [float(x) for x in v], "arr": np.array(v, dtype=float),
               "col": np.array(v, dtype=float).reshape((-1, 1))}[op["form"]]
        regs[t][op["a"]:op["b"]] = val
    elif k == "setQuat":
        regs[t].setQuat(Rsc.from_rotvec(op["w"]).as_quat())
    elif k == "angleMod":
        regs[t].angleMod()
    elif k == "copy":
        regs[t] = regs[op["s"]].copy()
    elif k == "inv":
        regs[t] = regs[op["s"]].inv()
    elif k == "abs":
        regs[t] = abs(regs[op["s"]])
    elif k == "matmul":
        regs[t] = regs[op["s"]] @ regs[op["o"]]
    elif k == "add":
        regs[t] = regs[op["s"]] + regs[op["o"]]
    elif k == "sub":
        regs[t] = regs[op["s"]] - regs[op["o"]]
    elif k == "fdiv_tm":
        regs[t] = regs[op["s"]] // regs[op["o"]]
    elif k == "l2g":
        regs[t] = fsr.localToGlobal(regs[op["s"]], regs[op["o"]])
    elif k == "g2l":
        regs[t] = fsr.globalToLocal(regs[op["s"]], regs[op["o"]])
    elif k == "matmul_arr":
        regs[t] = regs[op["s"]] @ se3.taa_to_T(op["v"])
    elif k == "add_arr":
        regs[t] = regs[op["s"]] + np.array(op["v"], dtype=float)
    elif k == "mul":
        regs[t] = regs[op["s"]] * op["k"]
    elif k == "rmul":
        regs[t] = op["k"] * regs[op["s"]]
    elif k == "div":
        regs[t] = regs[op["s"]] / op["k"]
    elif k == "fdiv_s":
        regs[t] = regs[op["s"]] // op["k"]
    else:
        raise KeyError(k)


def expected(op, obs):
    """Expected (T, taa_or_None) of the written register from the observations before the step.

    obs[i] = (TM, TAA(6,)) as read through gTM()/gTAA().  taa is given when the six-vector itself is
    determined by the operation (vector-side writers)."""
    k = op["op"]
    t = op["t"]
    if k in ("sTAA", "ctor6l", "ctor6a"):
        v = np.array(op["v"], dtype=float)
        return se3.taa_to_T(v), v
    if k in ("sTM", "ctor_mat", "ctor7"):
        return se3.taa_to_T(op["v"]), None
    if k == "ctor_rpy":
        v = np.array(op["v"], dtype=float)
        Rm = se3.exp3([v[3], 0, 0]) @ se3.exp3([0, v[4], 0]) @ se3.exp3([0, 0, v[5]])
        return se3.rp(Rm, v[:3]), None
    if k == "ctor3":
        v = np.concatenate([np.zeros(3), np.array(op["v"], dtype=float)])
        return se3.taa_to_T(v), v
    if k in ("ctor_tm", "copy"):
        return obs[op["s"]][0], obs[op["s"]][1]
    if k == "ctor_objarr":
        return obs[op["s"]][0], None
    if k in ("set", "setitem"):
        v = obs[t][1].copy()
        v[op["i"]] = op["x"]
        return se3.taa_to_T(v), v
    if k == "setslice":
        v = obs[t][1].copy()
        v[op["a"]:op["b"]] = op["v"]
        return se3.taa_to_T(v), v
    if k == "setQuat":
        return se3.rp(se3.exp3(op["w"]), obs[t][0][:3, 3]), None
    if k == "angleMod":
        v = obs[t][1]
        if np.all(np.abs(v[3:]) <= 2 * PI):
            return obs[t][0], v
        return None, None           # congruence of the wrapped components is C18's clause
    if k == "inv":
        return se3.inv(obs[op["s"]][0]), None
    if k == "abs":
        v = np.abs(obs[op["s"]][1])
        return se3.taa_to_T(v), v
    if k == "matmul":
        return obs[op["s"]][0] @ obs[op["o"]][0], None
    if k == "add":
        v = obs[op["s"]][1] + obs[op["o"]][1]
        return se3.taa_to_T(v), v
    if k == "sub":
        v = obs[op["s"]][1] - obs[op["o"]][1]
        return se3.taa_to_T(v), v
    if k == "fdiv_tm":
        return obs[op["s"]][0] @ se3.inv(obs[op["o"]][0]), None
    if k == "l2g":
        return obs[op["s"]][0] @ obs[op["o"]][0], None
    if k == "g2l":
        return se3.inv(obs[op["s"]][0]) @ obs[op["o"]][0], None
    if k == "matmul_arr":
        return obs[op["s"]][0] @ se3.taa_to_T(op["v"]), None
    if k == "add_arr":
        v = obs[op["s"]][1] + np.array(op["v"], dtype=float)
        return se3.taa_to_T(v), v
    if k in ("mul", "rmul"):
        v = obs[op["s"]][1] * op["k"]
        return se3.taa_to_T(v), v
    if k == "div":
        v = obs[op["s"]][1] / op["k"]
        return se3.taa_to_T(v), v
    if k == "fdiv_s":
        v = obs[op["s"]][1] // op["k"]
        return se3.taa_to_T(v), v
    raise KeyError(k)


def observe(t):
    TM = t.gTM()
    TAA = t.gTAA()
    return TM, TAA


def check_invariant(t, ctx, where, hist):
    """Class invariant read through the public interface.  Returns (TM, taa6) or None."""
    try:
        TM, TAA = observe(t)
    except Exception as e:
        ctx.clause("inv.shape")
        ctx.violation("inv.shape", "unreadable/%s/after=%s" % (type(e).__name__, where), {"exc": repr(e)[:200]}, hist)
        return None
    ctx.clause("inv.shape")
    if not (isinstance(TM, np.ndarray) and TM.shape == (4, 4) and TM.dtype.kind == "f"
            and isinstance(TAA, np.ndarray) and TAA.shape == (6, 1) and TAA.dtype.kind == "f"
            and np.all(np.isfinite(TM)) and np.all(np.isfinite(TAA))):
        ctx.violation("inv.shape", "shape/after=" + where,
                      {"TM.shape": getattr(TM, "shape", None), "TAA.shape": getattr(TAA, "shape", None),
                       "TM.dtype": str(getattr(TM, "dtype", None)), "TAA.dtype": str(getattr(TAA, "dtype", None))}, hist)
        return None
    taa = TAA.reshape(6)
    ctx.clause("inv.lastrow")
    if tol.maxabs(TM[3] - np.array([0.0, 0.0, 0.0, 1.0])) > tol.ABS5:
        ctx.violation("inv.lastrow", "lastrow/after=" + where, {"row": TM[3]}, hist)
    Rm = TM[:3, :3]
    ctx.clause("inv.rot")
    eo = tol.maxabs(Rm.T @ Rm - np.eye(3))
    ed = abs(np.linalg.det(Rm) - 1)
    if eo > tol.ABS5 or ed > tol.ABS5:
        ctx.violation("inv.rot", "not_SO3/after=" + where, {"orth_err": eo, "det_err": ed}, hist)
    ctx.clause("inv.pos")
    pt = tol.entry_tol(tol.maxabs(taa[:3]))
    ok, e = tol.close(TM[:3, 3], taa[:3], pt)
    if not ok:
        ctx.violation("inv.pos", "pos_mismatch/after=" + where, {"err": e, "TM_p": TM[:3, 3], "TAA_p": taa[:3]}, hist)
    ctx.clause("inv.exp")
    ok, e = tol.close(Rm, se3.exp3(taa[3:]), tol.ABS5)
    ctx.err("inv.exp", e)
    if not ok:
        ctx.violation("inv.exp", "rot_mismatch/after=" + where, {"err": e, "taa_rot": taa[3:]}, hist)
    ctx.clause("inv.index")
    try:
        idx = np.array([t[i] for i in range(6)], dtype=float)
        sl = np.asarray(t[1:5], dtype=float).reshape(-1)
        if not (np.array_equal(idx, taa) and np.array_equal(sl, taa[1:5])):
            ctx.violation("inv.index", "index_mismatch/after=" + where, {"idx": idx, "taa": taa}, hist)
    except Exception as e:
        ctx.violation("inv.index", "index_raises/%s/after=%s" % (type(e).__name__, where), {"exc": repr(e)[:200]}, hist)
    return TM, taa


def run_history(ops, ctx, tm, fsr, check_every_step, init=INIT):
    hist = {"init": init, "ops": ops}
    regs = [tm([float(x) for x in v]) for v in init]
    obs = [observe(r) for r in regs]
    obs = [(a, b.reshape(6)) for a, b in obs]
    for n, op in enumerate(ops):
        last = n == len(ops) - 1
        try:
            exp_T, exp_taa = expected(op, obs)
        except Exception as e:
            ctx.inconc("model error %r on %r" % (e, op))
            return
        try:
            apply_op(op, regs, tm, fsr)
        except Exception as e:
            ctx.clause("returns")
            ctx.violation("returns", "raises/%s/op=%s" % (type(e).__name__, op["op"]), {"exc": repr(e)[:300], "step": n}, hist)
            return
        if not (check_every_step or last):
            obs = [(a, b.reshape(6)) for a, b in (observe(r) for r in regs)]
            continue
        new_obs = []
        for i, r in enumerate(regs):
            res = check_invariant(r, ctx, op["op"] if i == op["t"] else "other:" + op["op"], hist)
            if res is None:
                return
            new_obs.append(res)
        # untouched registers must not move
        for i in range(len(regs)):
            if i != op["t"]:
                if not (np.array_equal(new_obs[i][0], obs[i][0]) and np.array_equal(new_obs[i][1], obs[i][1])):
                    ctx.clause("model.untouched")
                    ctx.violation("model.untouched", "operand_changed/op=" + op["op"], {"reg": i, "step": n}, hist)
        if exp_T is not None:
            ctx.clause("model.pose")
            TM, taa = new_obs[op["t"]]
            # largest translation in play: operands whose matrix carries a rotation below the 1e-6 cut-off lose it when an
            # operation goes through the six-vector, which moves a point at distance d by up to 1e-6 d
            sc = max([1.0, tol.maxabs(exp_T[:3, 3])] + [tol.maxabs(o[0][:3, 3]) for o in obs])
            okr, er = tol.close(TM[:3, :3], exp_T[:3, :3], tol.ABS5)
            okp, ep = tol.close(TM[:3, 3], exp_T[:3, 3], tol.ABS5 * sc)
            okv, ev = True, 0.0
            if exp_taa is not None:
                okv, ev = tol.close(taa, np.asarray(exp_taa, dtype=float).reshape(6), tol.ABS5 * sc)
            ctx.err("model.pose", max(er, ep, ev))
            if not (okr and okp and okv):
                ctx.violation("model.pose", "pose/op=" + op["op"], {"err_rot": er, "err_pos": ep, "err_taa": ev, "step": n}, hist)
        obs = new_obs


def nontrivial(ops):
    per = {}
    for op in ops:
        s = per.setdefault(op["t"], set())
        if op["op"] in MATRIX_SIDE:
            s.add("m")
        if op["op"] in VECTOR_SIDE:
            s.add("v")
    return any(len(s) == 2 for s in per.values())


def plan(tier, seed):
    n = len(ATOMS)
    if tier == "quick":
        sp = [{"mode": "exh", "maxlen": 2, "part": 0, "parts": 1, "timeout_s": 900}]
        sp += [{"mode": "exh3sample", "frac": 0.03, "part": i, "parts": 7, "timeout_s": 900} for i in range(7)]
        sp += [{"mode": "random", "n": 600, "timeout_s": 900} for _ in range(6)]
        sp += [{"mode": "random", "half_turn": True, "n": 600, "timeout_s": 900} for _ in range(2)]
        return sp
    sp = [{"mode": "exh", "maxlen": 2, "part": 0, "parts": 1, "timeout_s": 3600}]
    sp += [{"mode": "exh3", "first": list(range(i, n, 31)), "timeout_s": 7200} for i in range(31)]
    sp += [{"mode": "random", "n": 20000, "timeout_s": 7200} for _ in range(16)]
    sp += [{"mode": "random", "half_turn": True, "n": 20000, "timeout_s": 7200} for _ in range(4)]
    # the repository's own test-suite as a workload, every tm operation of the property's alphabet under the invariant contract
    sp.append({"mode": "suite", "timeout_s": 3600})
    return sp


def _load():
    from ..worker import import_target
    import_target()
    from basic_robotics.general import tm, fsr
    return tm, fsr


def seq_id(idx):
    v = 0
    for i in idx:
        v = v * (len(ATOMS) + 1) + (i + 1)
    return v


def run_shard(spec, ctx):
    if spec["mode"] == "suite":
        from ..worker import import_target
        from ..suite import run_under_monitors
        import_target()
        run_under_monitors(ctx, "C03", timeout_s=spec["timeout_s"] - 120)
        return
    tm, fsr = _load()
    n = len(ATOMS)
    mode = spec["mode"]
    if mode == "exh":
        for L in range(1, spec["maxlen"] + 1):
            for idx in itertools.product(range(n), repeat=L):
                ops = [ATOMS[i] for i in idx]
                ctx.case_id(seq_id(idx), nontrivial(ops))
                run_history(ops, ctx, tm, fsr, check_every_step=False)
        ctx.samples.append({"ops": [ATOMS[3], ATOMS[40]]})
        ctx.bump("exhaustive_parts", "len<=2_done", 1)
    elif mode == "exh3":
        for i in spec["first"]:
            for j in range(n):
                for k in range(n):
                    ops = [ATOMS[i], ATOMS[j], ATOMS[k]]
                    ctx.case_id(seq_id((i, j, k)), nontrivial(ops))
                    run_history(ops, ctx, tm, fsr, check_every_step=False)
            ctx.bump("exhaustive_parts", "len3_first_ops_done", 1)
        ctx.samples.append({"ops": ops})
    elif mode == "exh3sample":
        rng = ctx.rng
        total = int(n ** 3 * spec["frac"] / spec["parts"])
        for _ in range(total):
            idx = tuple(int(x) for x in rng.integers(0, n, 3))
            ops = [ATOMS[i] for i in idx]
            ctx.case_id(seq_id(idx), nontrivial(ops))
            run_history(ops, ctx, tm, fsr, check_every_step=False)
        ctx.samples.append({"ops": ops})
    else:
        rng = ctx.rng
        for _ in range(int(spec["n"])):
            L = int(rng.integers(2, 13))
            ht = bool(spec.get("half_turn"))
            ops = [random_op(rng, ht) for _ in range(L)]
            init = [near_half_turn(rng) if ht and rng.random() < 0.7 else gen.taa(rng, 10.0).tolist() for _ in range(3)]
            if ht:
                ctx.cls("history:near_half_turn")
            ctx.case([o["op"] for o in ops] + [gen.quant(init[0], 1e-6)], nontrivial(ops), sample_every=0)
            run_history(ops, ctx, tm, fsr, check_every_step=True, init=init)
        ctx.samples.append({"init": init, "ops": ops})
    ctx.extra["alphabet_size"] = n


def finalize(m, tier, results):
    n = len(ATOMS)
    ex = m["extra"].get("exhaustive_parts", {})
    m["extra"]["alphabet_size"] = n
    if tier == "thorough":
        full = ex.get("len<=2_done", 0) == 1 and ex.get("len3_first_ops_done", 0) == n
        m["extra"]["exhaustive_len3_complete"] = bool(full)
        if not full:
            m["inconclusive"].append("exhaustive length-3 enumeration incomplete: %r" % ex)
    else:
        if ex.get("len<=2_done", 0) != 1:
            m["inconclusive"].append("exhaustive length-2 enumeration incomplete")


def replay(case, ctx):
    if "suite_test" in case:
        from ..suite import run_under_monitors
        run_under_monitors(ctx, "C03", select=[case["suite_test"].replace("tests/", "tests/", 1)])
        return
    tm, fsr = _load()
    ctx.case(case, True)
    run_history(case["ops"], ctx, tm, fsr, check_every_step=True, init=case.get("init", INIT))
