"""C17 - compiled kernels never index out of bounds and match their interpreted source."""
import copy
import math
import os
import types
import numpy as np

from .. import armlib, gen, tol
from ..oracle import se3
from . import c02

PI = math.pi

META = {
    "level": "exploration",
    "rule": ("(1) The same seeded call list - every @jit kernel of the two JIT modules (47, enumerated by introspection) on the "
             "input classes of C01/C02/C09, and every public tm/Arm/SP entry point that reaches a kernel, for every link/joint "
             "index 0..n-1 - is executed in three separate processes: NUMBA_BOUNDSCHECK=1, default JIT, NUMBA_DISABLE_JIT=1; "
             "the parent compares the recorded results call by call (1e-10 relative) and fails on any IndexError.  (2) In the "
             "JIT process every dispatcher is also called as f(...) and f.py_func(...) on C-ordered, Fortran-ordered, sliced and "
             "integer-typed variants of its array arguments (a TypeError from a typed signature = 'not accepted', counted).  "
             "Non-trivial: the call involves an array of more than one row/column; distinct by (target, quantised arguments)."),
    "assumptions": ["NUMBA_BOUNDSCHECK=1 checks every index against the bounds of the VIEW it indexes - exact for reads that land "
                    "inside the parent buffer of a slice, which red-zone tools (ASan/valgrind) cannot see",
                    "each environment has its own Numba cache directory keyed by source hash + flags",
                    "iterative kernels are compared only when the three executions agree on the convergence flag (chaotic starts)"],
}

START_ARG = {"IKinBody": 3, "IKinSpace": 3, "IKinSpaceConstrained": 3}     # position of the iteration start in the kernel's arguments
ITERATIVE = ("kernel:IKinBody", "kernel:IKinSpace", "kernel:IKinSpaceConstrained", "kernel:SPFKinSpaceR", "arm.IK", "arm.IKfree")
ENVS = {"bc": {"NUMBA_BOUNDSCHECK": "1"}, "jit": {}, "nojit": {"NUMBA_DISABLE_JIT": "1"}}


def plan(tier, seed):
    groups = 4 if tier == "quick" else 16
    per = 6 if tier == "quick" else 60
    specs = []
    for g in range(groups):
        for env in ("bc", "jit", "nojit"):
            specs.append({"mode": "triple", "group": g, "envname": env, "env": ENVS[env], "per_fn": per, "narms": 3 if tier == "quick" else 12,
                          "timeout_s": 3600})
    for g in range(2 if tier == "quick" else 8):
        specs.append({"mode": "pyfunc", "group": 100 + g, "per_fn": 4 if tier == "quick" else 40, "timeout_s": 3600})
    if tier == "thorough":
        # the repository's own test-suite once under array-bounds instrumentation
        specs.append({"mode": "suite", "group": 200, "envname": "bc", "env": ENVS["bc"], "timeout_s": 3600})
    return specs


# ----------------------------------------------------------------------------- kernel argument generators
def kernel_args(name, rng):
    if name in c02_names():
        try:
            return c02.gen_args(name, rng, "quick")
        except KeyError:
            pass
    if name == "AngleMod":
        return (rng.uniform(-20, 20, int(rng.integers(1, 7))),)
    if name == "Norm":
        return (rng.normal(size=3) * 10,)
    if name == "Norm6":
        return (rng.normal(size=6) * 10,)
    if name == "SafeTrace":
        return (rng.normal(size=(3, 3)) if rng.random() < 0.8 else rng.normal(size=(4, 4)),)
    if name == "SafeClip":
        return (float(rng.normal() * 2), -1.0, 1.0)
    if name in ("MatMul", "SafeDot"):
        k = int(rng.integers(2, 5))
        return (rng.normal(size=(k, k)), rng.normal(size=(k, k)))
    if name in ("LocalToGlobal", "GlobalToLocal"):
        a, b = gen.taa(rng, 10.0), gen.taa(rng, 10.0)
        if rng.random() < 0.5:
            return (a.reshape((6, 1)), b.reshape((6, 1)))
        return (a, b)
    if name == "SafeCopy":
        return (rng.normal(size=(int(rng.integers(1, 6)), int(rng.integers(1, 6)))),)
    if name == "TrVec":
        return (c02.g_T(rng, False, 10.0), rng.normal(size=3))
    if name == "IKinSpaceConstrained":
        n, S, M = c02.g_chain(rng)
        S = np.ascontiguousarray(gen.screw_axes(rng, n, prismatic_ok=False))
        thg = rng.uniform(-2, 2, n)
        T = np.ascontiguousarray(se3.poe_space(M, S, thg))
        return (S, M, T, thg + rng.normal(size=n) * 0.05, 1e-4, 1e-5, np.full(n, -PI), np.full(n, PI), 30)
    if name == "SPIKinSpace":
        bj = rng.normal(size=(3, 6))
        tj = rng.normal(size=(3, 6))
        return (c02.g_T(rng, True, 2.0), c02.g_T(rng, True, 2.0), bj, tj, np.zeros((3, 6)), np.zeros((3, 6)))
    if name == "SPFKinSpaceR":
        ang = np.linspace(0, 2 * PI, 7)[:6]
        bj = np.stack([np.cos(ang + 0.15), np.sin(ang + 0.15), np.zeros(6)], axis=1)
        tj = np.stack([0.7 * np.cos(ang + 0.9), 0.7 * np.sin(ang + 0.9), np.zeros(6)], axis=1)
        pose = np.array([0.05, -0.03, 1.2, 0.04, -0.05, 0.06]) * (1 + 0.2 * rng.normal(size=6))
        Rm = se3.exp3(pose[3:])
        L = np.array([np.linalg.norm(pose[:3] + Rm @ tj[i] - bj[i]) for i in range(6)])
        return (L, np.array([0, 0, 1.0, 0, 0, 0]), bj, tj, 100, 1e-9, 1e-9, 0.5)
    raise KeyError(name)


_C02_NAMES = None


def c02_names():
    global _C02_NAMES
    if _C02_NAMES is None:
        _C02_NAMES = {"NearZero", "Normalize", "RotInv", "VecToso3", "so3ToVec", "AxisAng3", "MatrixExp3", "MatrixLog3", "RpToTrans", "TransToRp",
                      "TransInv", "VecTose3", "se3ToVec", "Adjoint", "ScrewToAxis", "AxisAng6", "MatrixExp6", "MatrixLog6", "DistanceToSO3",
                      "DistanceToSE3", "TestIfSO3", "TestIfSE3", "FKinBody", "FKinSpace", "JacobianBody", "JacobianSpace", "IKinBody", "IKinSpace",
                      "ad", "EulerStep", "CubicTimeScaling", "QuinticTimeScaling", "JointTrajectory", "ProjectToSO3", "ProjectToSE3",
                      "InverseDynamics", "MassMatrix", "VelQuadraticForces", "GravityForces", "EndEffectorForces", "ForwardDynamics",
                      "ScrewTrajectory", "CartesianTrajectory", "ComputedTorque"}
    return _C02_NAMES


KNOWN_KERNELS = ['NearZero', 'Normalize', 'AngleMod', 'Norm', 'Norm6', 'RotInv', 'VecToso3', 'so3ToVec', 'AxisAng3', 'MatrixExp3', 'SafeTrace', 'SafeClip',
                 'MatrixLog3', 'RpToTrans', 'TransToRp', 'TransInv', 'VecTose3', 'se3ToVec', 'Adjoint', 'ScrewToAxis', 'AxisAng6', 'MatrixExp6', 'MatMul',
                 'LocalToGlobal', 'GlobalToLocal', 'MatrixLog6', 'SafeDot', 'DistanceToSO3', 'DistanceToSE3', 'TestIfSO3', 'TestIfSE3', 'FKinBody', 'FKinSpace',
                 'SafeCopy', 'JacobianBody', 'JacobianSpace', 'IKinBody', 'IKinSpace', 'ad', 'EulerStep', 'CubicTimeScaling', 'QuinticTimeScaling',
                 'JointTrajectory', 'IKinSpaceConstrained', 'SPIKinSpace', 'SPFKinSpaceR', 'TrVec']      # the 47 @jit functions of the pinned tree


def kernel_list(mods):
    """Names of the @jit kernels (works with and without NUMBA_DISABLE_JIT by reading the decorators from the source)."""
    import ast
    out = []
    for mod in mods:
        src = open(mod.__file__).read()
        for node in ast.parse(src).body:
            if isinstance(node, ast.FunctionDef):
                for d in node.decorator_list:
                    f = d.func if isinstance(d, ast.Call) else d
                    nm = getattr(f, "id", getattr(f, "attr", ""))
                    if nm in ("jit", "njit"):
                        out.append((mod, node.name))
    return out


def flat(x):
    """Result -> flat list of floats (or a marker)."""
    if x is None:
        return ["None"]
    if hasattr(x, "gTM"):
        return np.asarray(x.gTM(), dtype=float).ravel().tolist()
    if isinstance(x, (list, tuple)):
        out = []
        for y in x:
            out += flat(y)
        return out
    a = np.asarray(x)
    if a.dtype == object:
        return [repr(x)[:40]]
    return a.astype(float).ravel().tolist()[:400]


def _rel_diff(r1, r2):
    try:
        a, b = np.array(r1, dtype=float), np.array(r2, dtype=float)
    except (ValueError, TypeError):
        return float("inf")
    if a.shape != b.shape:
        return float("inf")
    fin = np.isfinite(a) & np.isfinite(b)
    if not np.array_equal(np.isfinite(a), np.isfinite(b)):
        return float("inf")
    return float(np.max(np.abs(a[fin] - b[fin]))) / max(1.0, float(np.max(np.abs(b[fin])))) if fin.any() else 0.0


def record(ctx, key, fn, desc, nontrivial=True, perturbed=None):
    """Run one call, store (key, result | exception).  perturbed: the same call with its iteration start moved by 1e-13
    (relative); the distance between the two answers is stored as the call's own sensitivity 's'."""
    ctx.evaluations += 1
    from ..common import h64
    if nontrivial:
        ctx.hashes.add(h64([key.split("#")[0], desc]))
    if len(ctx.samples) < 3 or (key.startswith("arm.FKLink") and len(ctx.samples) < 6):
        ctx.samples.append({"call": key, "env": ctx.spec["envname"], "args": desc})
    try:
        r = flat(fn())
        entry = {"k": key, "r": r}
        if perturbed is not None:
            try:
                entry["s"] = _rel_diff(r, flat(perturbed()))
            except Exception:
                entry["s"] = float("inf")
    except IndexError as e:
        entry = {"k": key, "x": "IndexError", "m": repr(e)[:160]}
    except Exception as e:
        entry = {"k": key, "x": type(e).__name__, "m": repr(e)[:160]}
    ctx.extra.setdefault("calls_" + ctx.spec["envname"], []).append(entry)


def run_triple(spec, ctx, bm):
    import basic_robotics.modern_robotics_numba.modern_high_performance as A
    import basic_robotics.general.faser_high_performance as B
    tm = bm["tm"]
    fsr = bm["fsr"]
    rng = np.random.Generator(np.random.PCG64([ctx.seed, 17, int(spec["group"])]))
    kl = kernel_list([A, B])
    ctx.extra["kernels_enumerated"] = len(kl)
    k = 0
    for mod, name in kl:
        f = getattr(mod, name)
        if name not in KNOWN_KERNELS:
            # a jitted helper that is not one of the 47 public kernels (added by a refactoring): no argument generator exists for
            # it; it is exercised through the kernels and entry points that call it
            ctx.bump("kernels_without_generator", name)
            continue
        for j in range(int(spec["per_fn"])):
            args = kernel_args(name, rng)
            a = copy.deepcopy(args)
            pert = None
            if name in START_ARG:
                a2 = list(copy.deepcopy(args))
                a2[START_ARG[name]] = a2[START_ARG[name]] * (1 + 1e-13) + 1e-15
                pert = lambda: f(*a2)
            record(ctx, "kernel:%s#%d" % (name, k), lambda: f(*a), gen.quant(flat(list(args)), 1e-6)[:24],
                   any(isinstance(x, np.ndarray) and x.size > 1 for x in args), perturbed=pert)
            k += 1
        ctx.cls("kernel:" + name, int(spec["per_fn"]))
    # ---- tm entry points ----
    for j in range(20 * int(spec["per_fn"]) // 6 + 10):
        ta, tb = gen.taa(rng, 10.0), gen.taa(rng, 10.0)
        q = se3.exp3(ta[3:])
        for nm, fn in (("tm.ctor", lambda: tm(ta.copy())), ("tm.matmul", lambda: tm(ta.copy()) @ tm(tb.copy())), ("tm.inv", lambda: tm(ta.copy()).inv()),
                       ("tm.adjoint", lambda: tm(ta.copy()).adjoint()), ("tm.exp6", lambda: tm(ta.copy()).exp6()),
                       ("tm.l2g", lambda: fsr.localToGlobal(tm(ta.copy()), tm(tb.copy()))), ("tm.g2l", lambda: fsr.globalToLocal(tm(ta.copy()), tm(tb.copy()))),
                       ("tm.sTM", lambda: _stm(tm, se3.taa_to_T(tb))), ("tm.midpoint", lambda: fsr.tmInterpMidpoint(tm(ta.copy()), tm(tb.copy()))),
                       ("tm.arcdist", lambda: fsr.arcDistance(tm(ta.copy()), tm(tb.copy()))), ("tm.twist", lambda: fsr.twistFromTransform(tm(ta.copy()))),
                       ("tm.fromtwist", lambda: fsr.transformFromTwist(np.concatenate([ta[3:], ta[:3]])))):
            record(ctx, "%s#%d" % (nm, k), fn, gen.quant(np.concatenate([ta, tb]), 1e-6))
            k += 1
    # ---- Arm entry points, every link / joint index ----
    for a_i in range(int(spec["narms"])):
        r = rng.random()
        desc = armlib.urdf_desc(gen.pick(rng, armlib.URDFS)) if r < 0.3 else armlib.test6r_desc() if r < 0.5 else armlib.random_desc(rng)
        base = armlib.random_base(rng, 0.4)
        model = armlib.ArmModel(desc, base)
        n = model.n
        try:
            arm = armlib.build_arm(desc, base, bm)
        except Exception as e:
            ctx.extra.setdefault("calls_" + spec["envname"], []).append({"k": "arm.build#%d" % k, "x": type(e).__name__, "m": repr(e)[:160]})
            k += 1
            continue
        homes = [np.concatenate([rng.uniform(-1, 1, 3), gen.rotvec(rng, ["zero", "generic2"])]) for _ in range(n)]
        try:
            arm.FKLink(np.zeros(n), n - 1)
            _has_links = True
        except Exception:
            _has_links = False
        if desc["kind"] != "urdf" or not _has_links:
            arm.setOrigins(link_homes_global=[tm(h.copy()) for h in homes])
        G = np.array([gen.spd6(rng, True) for _ in range(n)])
        Ml = [se3.rp(np.eye(3), rng.uniform(-0.3, 0.3, 3)) for _ in range(n + 1)]
        arm.setMassProperties(rng.uniform(0.1, 10, n + 1), [tm(m.copy()) for m in Ml], G)
        th = rng.uniform(np.maximum(model.lo, -PI), np.minimum(model.hi, PI))
        th = np.where(np.abs(th) < 1e-3, 0.1, th)
        qd, qdd = rng.normal(size=n), rng.normal(size=n)
        d = [desc.get("file", desc["kind"]), gen.quant(th, 1e-6), gen.quant(base, 1e-6)]
        calls = [("arm.FK", lambda: arm.FK(th.copy())), ("arm.jacobian", lambda: arm.jacobian(th.copy())),
                 ("arm.jacobianBody", lambda: arm.jacobianBody(th.copy())), ("arm.jacobianEETrans", lambda: arm.jacobianEETrans(th.copy())),
                 ("arm.getJointTransforms", lambda: arm.getJointTransforms()), ("arm.massMatrix", lambda: arm.massMatrix(th.copy())),
                 ("arm.inverseDynamics", lambda: arm.inverseDynamics(th.copy(), qd.copy(), qdd.copy(), None, np.zeros((6, 1)))[0]),
                 ("arm.IK", lambda: _ik(arm, tm, model, th, rng_seed=a_i)), ("arm.IKfree", lambda: _ik(arm, tm, model, th, rng_seed=a_i, protect=True))]
        perts = {"arm.IK": lambda: _ik(arm, tm, model, th, rng_seed=a_i, eps=1e-13), "arm.IKfree": lambda: _ik(arm, tm, model, th, rng_seed=a_i, protect=True, eps=1e-13)}
        if n == 6:
            calls.append(("arm.inverseDynamicsC", lambda: arm.inverseDynamicsC(th.copy(), qd.copy(), qdd.copy(), None, np.zeros((6, 1)))[0]))
        for i in range(n):
            calls.append(("arm.FKLink[%d/%d]" % (i, n), lambda i=i: arm.FKLink(th.copy(), i)))
            calls.append(("arm.FKJoint[%d/%d]" % (i, n), lambda i=i: arm.FKJoint(th.copy(), i)))
            calls.append(("arm.jacobianLink[%d/%d]" % (i, n), lambda i=i: arm.jacobianLink(i, th.copy())))
        for nm, fn in calls:
            record(ctx, "%s#%d" % (nm, k), fn, d + [nm], perturbed=perts.get(nm))
            k += 1
    try:
        from . import c17_sp
        c17_sp.sp_calls(spec, ctx, rng, k, record)
    except ImportError:
        pass


def _stm(tm, T):
    t = tm()
    t.sTM(T.copy())
    return t.gTAA()


def _ik(arm, tm, model, th, rng_seed=0, protect=False, eps=0.0):
    import random
    random.seed(rng_seed)
    goal = arm.FK(th.copy()).gTM()
    r, s = arm.IK(tm(goal), (th + 0.01) * (1 + eps) + eps * 1e-2, protect=protect)
    return [np.asarray(r, dtype=float), float(bool(s))]


def variants(args, rng, intok):
    """Layout variants of the array arguments: name -> args tuple."""
    out = {"C": copy.deepcopy(args)}
    def tf(fn):
        return tuple(fn(a) if isinstance(a, np.ndarray) and a.dtype.kind == "f" else
                     [fn(x) if isinstance(x, np.ndarray) else x for x in a] if isinstance(a, list) else a for a in copy.deepcopy(args))
    out["F"] = tf(lambda a: np.asfortranarray(a) if a.ndim == 2 else a)

    def sliced(a):
        if a.ndim == 1:
            big = np.zeros(2 * a.size + 1)
            big[1::2] = a
            return big[1::2]
        if a.ndim == 2:
            big = np.zeros((a.shape[0] * 2 + 1, a.shape[1] * 2 + 1))
            big[1::2, 1::2] = a
            return big[1::2, 1::2]
        return a
    out["sliced"] = tf(sliced)
    if intok:
        out["int"] = tf(lambda a: np.round(a * 3).astype(np.int64))
    return out


INT_OK = {"VecToso3", "so3ToVec", "VecTose3", "se3ToVec", "RotInv", "Norm", "Norm6", "Normalize", "SafeTrace", "MatMul", "SafeDot", "SafeCopy", "ad",
          "ScrewToAxis", "AngleMod", "EulerStep", "TrVec"}


def run_pyfunc(spec, ctx, bm):
    import basic_robotics.modern_robotics_numba.modern_high_performance as A
    import basic_robotics.general.faser_high_performance as B
    from numba.core.dispatcher import Dispatcher
    rng = ctx.rng
    for mod, name in kernel_list([A, B]):
        f = getattr(mod, name)
        if name not in KNOWN_KERNELS:
            ctx.bump("kernels_without_generator", name)
            continue
        if not isinstance(f, Dispatcher):
            ctx.inconc("kernel %s is not a dispatcher in the JIT process" % name)
            continue
        for j in range(int(spec["per_fn"])):
            args = kernel_args(name, rng)
            for vname, va in variants(args, rng, name in INT_OK).items():
                clause = "pyfunc:" + vname
                a1, a2 = copy.deepcopy(va), copy.deepcopy(va)
                case = {"kernel": name, "variant": vname, "args": flat(list(va))[:60]}
                ctx.case([name, vname, gen.quant(flat(list(args)), 1e-6)[:24]], any(isinstance(x, np.ndarray) and x.size > 1 for x in args))
                try:
                    rj = f(*a1)
                    ej = None
                except Exception as e:
                    rj, ej = None, e
                if isinstance(ej, TypeError) and vname != "C":
                    ctx.bump("not_accepted", "%s:%s" % (name, vname))
                    continue
                try:
                    rp = f.py_func(*a2)
                    ep = None
                except Exception as e:
                    rp, ep = None, e
                ctx.clause(clause)
                ctx.clause("kernel:" + name)
                if isinstance(ej, IndexError) and ep is None:
                    ctx.violation(clause, "%s/jit_IndexError/%s" % (name, vname), {"exc": repr(ej)[:200]}, case)
                    continue
                if ej is not None or ep is not None:
                    if (ej is None) != (ep is None):
                        ctx.bump("exception_mismatch_observed", "%s:%s" % (name, vname))
                    continue
                fj, fp = flat(rj), flat(rp)
                if name in ("IKinBody", "IKinSpace", "IKinSpaceConstrained") and (fj[-1] != fp[-1] or fj[-1] == 0.0):
                    ctx.bump("iterative_flag_differs_observed", name)
                    continue
                sens = 0.0
                if name in START_ARG:
                    a3 = list(copy.deepcopy(a2))
                    a3[START_ARG[name]] = a3[START_ARG[name]] * (1 + 1e-13) + 1e-15
                    try:
                        sens = _rel_diff(fp, flat(f.py_func(*a3)))
                    except Exception:
                        sens = float("inf")
                    if sens > 1e-9:
                        ctx.bump("iterative_not_compared_sensitive", name)
                        continue
                ok = len(fj) == len(fp)
                e = float("inf")
                if ok:
                    a_, b_ = np.array(fj, dtype=float), np.array(fp, dtype=float)
                    fin = np.isfinite(b_)
                    ok = bool(np.array_equal(np.isfinite(a_), fin))
                    if ok and fin.any():
                        e = float(np.max(np.abs(a_[fin] - b_[fin]))) / max(1.0, float(np.max(np.abs(b_[fin]))))
                        # an iterative kernel whose own answer moves by `sens` when its start moves by 1e-13 cannot be asked to agree
                        # with its interpreted source (other rounding of the same arithmetic) more closely than a few times that
                        # (same bound as the three-way clause uses for iterative kernels: whether one more Newton step is taken can hinge
                        # on one ulp of the stop test, and the two answers then differ by about the stop tolerance)
                        ok = e <= (1e-6 if name in START_ARG else 1e-10)
                    elif ok:
                        e = 0.0
                ctx.err(clause, e if np.isfinite(e) else 1e300)
                if not ok:
                    ctx.violation(clause, "%s/differs_from_py_func/%s" % (name, vname), {"rel_err": e, "jit": fj[:8], "py": fp[:8]}, case)


def run_suite(spec, ctx):
    """Run the repository's tests in a child pytest with NUMBA_BOUNDSCHECK=1 and look for IndexError failures."""
    import subprocess
    import tempfile
    import xml.etree.ElementTree as ET
    from ..common import PY, VERIF, repo_root
    root = repo_root()
    out = tempfile.mktemp(suffix=".xml", dir=os.path.join(VERIF, ".cache"))
    env = dict(os.environ)
    r = subprocess.run([PY, "-m", "pytest", "-q", "-p", "no:cacheprovider", "--timeout=900", "--junitxml=" + out, "tests"], cwd=root, env=env,
                       stdout=subprocess.PIPE, stderr=subprocess.STDOUT, text=True)
    n = nidx = 0
    try:
        for tc in ET.parse(out).getroot().iter("testcase"):
            n += 1
            ctx.evaluations += 1
            for ch in tc:
                if ch.tag in ("failure", "error"):
                    txt = (ch.get("message") or "") + (ch.text or "")
                    if "IndexError" in txt:
                        nidx += 1
                        ctx.violation("bounds", "suite/IndexError/" + tc.get("name", "?"), {"message": txt[-400:]}, {"suite_test": tc.get("name")})
    finally:
        if os.path.exists(out):
            os.remove(out)
    ctx.clause("suite_under_boundscheck", n)
    ctx.extra["suite_tests_under_boundscheck"] = n
    if n == 0:
        ctx.inconc("repository test-suite produced no results under NUMBA_BOUNDSCHECK=1: " + r.stdout[-300:])


def run_shard(spec, ctx):
    ctx.spec = spec
    if spec["mode"] == "suite":
        from ..worker import import_target
        import_target()
        run_suite(spec, ctx)
        return
    bm = armlib.load_bm()
    if spec["mode"] == "triple":
        run_triple(spec, ctx, bm)
        ctx.extra["group_env_done"] = {"%d:%s" % (spec["group"], spec["envname"]): 1}
    else:
        ctx.spec["envname"] = "jit"
        run_pyfunc(spec, ctx, bm)


def finalize(m, tier, results):
    """Cross-process comparison of the recorded call lists."""
    by = {}
    for r in results:
        if r.get("status") in ("timeout", "died"):
            continue
        for env in ENVS:
            for e in r["extra"].get("calls_" + env, []):
                by.setdefault(e["k"] + "@g%d" % r["shard"] if False else e["k"] + "@%s" % _group_of(r), {})[env] = e
    # remove bulky lists from the evidence
    for env in ENVS:
        m["extra"].pop("calls_" + env, None)
    n_cmp = 0
    n_idx = 0
    kernels = set()
    viol = []
    for key, d in by.items():
        name = key.split("#")[0]
        if name.startswith("kernel:"):
            kernels.add(name[7:])
        if len(d) < 3:
            continue
        n_cmp += 1
        for env, e in d.items():
            if e.get("x") == "IndexError":
                n_idx += 1
                viol.append(("bounds", "%s/IndexError/%s" % (_generic(name), env), {"msg": e.get("m"), "call": key}))
        if any("x" in e for e in d.values()):
            xs = {env: e.get("x") for env, e in d.items()}
            if len(set(xs.values())) > 1 and not any(v == "IndexError" for v in xs.values()):
                m["extra"].setdefault("exception_mismatch_observed", {})
                m["extra"]["exception_mismatch_observed"][_generic(name)] = m["extra"]["exception_mismatch_observed"].get(_generic(name), 0) + 1
            continue
        ref = np.array(d["nojit"]["r"], dtype=object)
        for env in ("bc", "jit"):
            a = d[env]["r"]
            b = d["nojit"]["r"]
            if len(a) != len(b):
                viol.append(("three_way", "%s/shape_differs/%s" % (_generic(name), env), {"call": key}))
                continue
            try:
                aa, bb = np.array(a, dtype=float), np.array(b, dtype=float)
            except (ValueError, TypeError):
                if a != b:
                    viol.append(("three_way", "%s/value_differs/%s" % (_generic(name), env), {"call": key}))
                continue
            if _generic(name) in ITERATIVE and any(float(x.get("s", 0.0)) > 1e-9 for x in d.values()):
                # the call's own answer moves by more than the comparison tolerance when its start moves by 1e-13: rounding decides
                m["extra"]["three_way_not_compared_sensitive"] = m["extra"].get("three_way_not_compared_sensitive", 0) + 1
                continue
            if _generic(name) in ITERATIVE and aa.size and (aa[-1] != bb[-1] or (_generic(name) != "kernel:SPFKinSpaceR" and aa[-1] == 0.0)):
                # differing convergence flag, or a non-converged (chaotic) iterate: nothing to compare
                m["extra"]["iterative_not_compared"] = m["extra"].get("iterative_not_compared", 0) + 1
                continue
            if _generic(name) in ITERATIVE:
                m["extra"]["three_way_iterative_compared"] = m["extra"].get("three_way_iterative_compared", 0) + 1
            fin = np.isfinite(bb)
            if not np.array_equal(np.isfinite(aa), fin):
                viol.append(("three_way", "%s/nonfinite_differs/%s" % (_generic(name), env), {"call": key}))
                continue
            if fin.any():
                e = float(np.max(np.abs(aa[fin] - bb[fin]))) / max(1.0, float(np.max(np.abs(bb[fin]))))
                if e > 1e-10 and not (_generic(name) in ITERATIVE and e < 1e-6):
                    viol.append(("three_way", "%s/value_differs/%s" % (_generic(name), env), {"call": key, "rel_err": e}))
    m["clauses"]["three_way.compared_calls"] = n_cmp
    m["extra"]["kernels_covered_three_way"] = len(kernels)
    m["extra"]["index_errors"] = n_idx
    for clause, key, detail in viol:
        k = "%s|%s" % (clause, key)
        m["viol_counts"][k] = m["viol_counts"].get(k, 0) + 1
        if m["viol_counts"][k] <= 3:
            m["violations"].append({"clause": clause, "key": key, "detail": detail, "case": {"call": detail.get("call"), "note": "re-run the tier with the same VERIF_SEED"}})
    pyf = {k[7:] for k in m["clauses"] if k.startswith("kernel:")}
    m["extra"]["kernels_covered_pyfunc"] = len(pyf)
    if len(kernels & set(KNOWN_KERNELS)) != 47:
        m["inconclusive"].append("three-way execution covered %d of 47 kernels" % len(kernels & set(KNOWN_KERNELS)))
    if len(pyf & set(KNOWN_KERNELS)) != 47:
        m["inconclusive"].append("py_func comparison covered %d of 47 kernels" % len(pyf & set(KNOWN_KERNELS)))
    if n_cmp == 0:
        m["inconclusive"].append("no call was executed in all three environments")
    if m["extra"].get("three_way_iterative_compared", 0) < 20:
        m["inconclusive"].append("fewer than 20 iterative-kernel executions were stable enough to compare")


def _group_of(r):
    ge = r["extra"].get("group_env_done", {})
    for k in ge:
        return "g" + k.split(":")[0]
    return "g?"


def _generic(name):
    """arm.FKLink[2/6] -> arm.FKLink[inner] / [last]: mechanism, not instance."""
    if "[" in name:
        base, idx = name.split("[")
        i, n = idx.rstrip("]").split("/")
        return base + ("[last]" if int(i) == int(n) - 1 else "[first]" if int(i) == 0 else "[inner]")
    return name


def replay(case, ctx):
    ctx.inconc("C17 violations are cross-process comparisons: re-run the tier with the same VERIF_SEED (see replay file)")
