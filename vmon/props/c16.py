"""C16 - RRT* builds a collision-free, cost-consistent tree and returns a path in it."""
import math
import random as pyrandom
import numpy as np

from .. import gen, tol
from ..oracle import segbox

PI = math.pi

META = {
    "level": "exploration",
    "rule": ("planner runs over seeds x obstruction layouts (0..12 random boxes or generated terrain) x bounds x iteration budgets "
             "1..400 (quick: <= 120) x distance modes x nearest-neighbour limits 1..20 x built-in and caller-supplied "
             "generator/distance/collision callbacks.  The callbacks and the index's nearestNeighbors/place are recording "
             "wrappers with sequence numbers; the recorded insertion order is replayed offline against a brute-force nearest "
             "neighbour search in the index's own 6-D metric: acceptance band w.r.t. the then-nearest node, chosen parent = "
             "arg-min of cost + distance over the first nearest and the collision-free examined neighbours, cost recurrence, "
             "collision-free parent links (built-in detector also against the exact C15 oracle), rooted acyclic tree, node count, "
             "path = start ... parent chain ... goal.  Non-trivial: budget >= 10 with at least one obstruction or a rejected "
             "sample; distinct by configuration + seed."),
    "assumptions": ["nodes are identified by value (the R-tree stores pickled copies)",
                    "configurations are pre-screened so that rejection sampling terminates quickly; an unbounded rejection loop would be "
                    "inconclusive (watchdog), not a violation",
                    "ties within 1e-12 in the parent choice are accepted"],
}
REQUIRED_CLASSES = ["entry:findPath", "obstruction:straddles_bounds"]
REQUIRED_REACH = ['path_planning/pathplanner.py:RRTStar.generalGenerateTree', 'path_planning/pathplanner.py:RRTStar.findPath', 'path_planning/pathplanner.py:RRTStar.findPathGeneral', 'path_planning/pathplanner.py:RRTStar.obstruction']
REQUIRED_CLAUSES = ["root", "count", "reaches_root", "cost_recurrence", "edges_free", "accept_band", "parent_choice", "path", "budget_one"]


def plan(tier, seed):
    if tier == "quick":
        return [{"n": 16, "maxit": 120, "timeout_s": 1800} for _ in range(16)]
    return [{"n": 320, "maxit": 400, "timeout_s": 14400} for _ in range(16)]


def gen_config(rng, maxit):
    half = float(rng.choice([2.0, 5.0, 10.0]))
    rotb = float(rng.choice([0.0, 0.5, 2 * PI]))
    bounds = [[-half, half]] * 3 + [[-rotb, rotb]] * 3
    dmode = int(rng.integers(2))
    mx = float(rng.choice([0.4 * half, 0.8 * half, 100.0]))
    mn = float(rng.choice([0.02 * half, 0.1 * half]))
    if dmode == 1:
        mx = max(mx, 0.8 * half) + rotb
    it = int(rng.choice([1, 2, 3, 5, 10, 30, 60, maxit]))
    it = min(it, maxit)
    boxes = []
    layout = gen.pick(rng, ["none", "boxes", "boxes", "terrain"])
    start = np.concatenate([rng.uniform(-0.3 * half, 0.3 * half, 3), rng.uniform(-rotb, rotb, 3) * 0.3])
    if layout == "boxes":
        for _ in range(int(rng.integers(1, 13))):
            c = rng.uniform(-half, half, 3)
            e = rng.uniform(0.02, 0.25, 3) * half
            lo, hi = c - e, c + e
            if np.all(start[:3] >= lo - 0.05 * half) and np.all(start[:3] <= hi + 0.05 * half):
                continue
            boxes.append([lo.tolist(), hi.tolist()])
    callbacks = gen.pick(rng, ["builtin", "builtin", "custom", "mixed"])
    entry = "findPath" if callbacks == "builtin" and rng.random() < 0.6 else "general"
    return {"bounds": bounds, "dmode": dmode, "min": mn, "max": mx, "iterations": it, "limit": int(rng.integers(1, 21)), "layout": layout,
            "boxes": boxes, "terrain": [half, half, half / 4, half / 4, 0.2 * half] if layout == "terrain" else None,
            "start": start.tolist(), "goal": np.concatenate([rng.uniform(-half, half, 3), np.zeros(3)]).tolist(), "callbacks": callbacks, "entry": entry,
            "custom_parts": [bool(x) for x in (rng.random(3) < 0.5)] if callbacks == "mixed" else [callbacks == "custom"] * 3,
            "seed": int(rng.integers(1 << 30))}


def key6(t):
    return tuple(np.round(np.asarray(t.gTAA(), dtype=float).reshape(6), 12))


def run_case(cfg, ctx, tm, fsr, RRTStar, PathNode):
    def viol(clause, key, **d):
        ctx.violation(clause, key, d, cfg)
    pyrandom.seed(cfg["seed"])
    start = tm(np.array(cfg["start"], dtype=float))
    try:
        pl = RRTStar(start)
    except Exception as e:
        ctx.clause("root")
        viol("root", "construct/raises/" + type(e).__name__, exc=repr(e)[:200])
        return
    pl.bounds = [list(b) for b in cfg["bounds"]]
    pl.dmode = cfg["dmode"]
    pl.minimum_distance = cfg["min"]
    pl.maximum_distance = cfg["max"]
    pl.iterations = cfg["iterations"]
    pl.nearest_neighbors_limit = cfg["limit"]
    for lo, hi in cfg["boxes"]:
        pl.addObstruction(lo, hi)
    if cfg["terrain"]:
        pl.generateTerrain(*cfg["terrain"])
    boxes = [(np.asarray(o[0].gTAA()).reshape(6)[:3], np.asarray(o[1].gTAA()).reshape(6)[:3]) for o in pl.obstructions]
    _b = np.array(cfg["bounds"][:3], dtype=float)
    if any((np.any(np.minimum(a, b) < _b[:, 0]) or np.any(np.maximum(a, b) > _b[:, 1])) and np.all(np.maximum(a, b) > _b[:, 0]) and np.all(np.minimum(a, b) < _b[:, 1])
           for a, b in boxes):
        ctx.cls("obstruction:straddles_bounds")
    if cfg["terrain"]:
        # keep the start outside the generated blocks
        s3 = np.array(cfg["start"][:3])
        if any(np.all(s3 >= np.minimum(a, b) - 1e-9) and np.all(s3 <= np.maximum(a, b) + 1e-9) for a, b in boxes):
            ctx.cls("skipped_start_inside_terrain")
            return
    events = []
    seq = [0]

    def rec(kind, **d):
        seq[0] += 1
        d["k"] = kind
        d["seq"] = seq[0]
        events.append(d)

    tree = pl.r6_tree_graph
    orig_nn, orig_place = tree.nearestNeighbors, tree.place

    def nn_rec(node, n):
        r = orig_nn(node, n)
        rec("nn", q=key6(node.getPosition()), n=n, res=[key6(x.object.getPosition()) for x in r], costs=[float(np.asarray(x.object.getCost()).reshape(-1)[0]) for x in r])
        return r

    def place_rec(node):
        par = node.getParent()
        rec("place", p=key6(node.getPosition()), parent=None if par is None else key6(par.getPosition()),
            cost=float(np.asarray(node.getCost()).reshape(-1)[0]), pcost=None if par is None else float(np.asarray(par.getCost()).reshape(-1)[0]))
        return orig_place(node)
    tree.nearestNeighbors = nn_rec
    tree.place = place_rec

    custom = cfg["callbacks"] == "custom"
    rng2 = np.random.default_rng(cfg["seed"])

    def my_gen():
        v = [rng2.uniform(b[0], b[1]) for b in cfg["bounds"]]
        return PathNode(tm(np.array(v, dtype=float)))

    def my_dist(a, b):
        return float(np.linalg.norm(np.asarray(a.gTAA()).reshape(6)[:3] - np.asarray(b.gTAA()).reshape(6)[:3])) + 0.1 * float(
            np.linalg.norm(np.asarray(a.gTAA()).reshape(6)[3:] - np.asarray(b.gTAA()).reshape(6)[3:]))

    def my_coll(a, b):
        pa = np.asarray(a.getPosition().gTAA()).reshape(6)[:3]
        pb = np.asarray(b.getPosition().gTAA()).reshape(6)[:3]
        return any(segbox.hit_exact(pa.tolist(), pb.tolist(), lo.tolist(), hi.tolist()) for lo, hi in boxes) or bool(abs(pa[0] - pb[0]) < 1e-3)

    parts = cfg.get("custom_parts", [custom] * 3)
    gen_f = my_gen if parts[0] else pl.randomPos
    dist_f = my_dist if parts[1] else pl.distance
    coll_f = my_coll if parts[2] else pl.obstruction
    custom = bool(parts[2])          # below: 'custom' only decides whether edges are also checked against the exact box oracle

    def gen_rec():
        n = gen_f()
        rec("gen", p=key6(n.getPosition()))
        return n

    def coll_rec(a, b):
        r = coll_f(a, b)
        rec("coll", a=key6(a.getPosition()), b=key6(b.getPosition()), r=bool(r))
        return r
    goal = tm(np.array(cfg["goal"], dtype=float))
    tagm = cfg["callbacks"]
    entry = cfg.get("entry", "general")
    if entry == "findPath":
        # the planner's own entry point with its built-in sampler / metric / collision test; observed through instance-level
        # wrappers (generateTree looks the three up on the instance)
        tagm = "builtin:findPath"
        orig_rand, orig_obs = pl.randomPos, pl.obstruction

        def rand_rec(*a, **k):
            n = orig_rand(*a, **k)
            rec("gen", p=key6(n.getPosition()))
            return n

        def obs_rec(a, b, *rest, **k):
            r = orig_obs(a, b, *rest, **k)
            rec("coll", a=key6(a.getPosition()), b=key6(b.getPosition()), r=bool(r))
            return r
        pl.randomPos, pl.obstruction = rand_rec, obs_rec
        ctx.cls("entry:findPath")
    try:
        if entry == "findPath":
            try:
                path = pl.findPath(goal)
            finally:
                del pl.randomPos, pl.obstruction
        else:
            path = pl.findPathGeneral(lambda: pl.generalGenerateTree(gen_rec, dist_f, coll_rec), goal)
    except ZeroDivisionError as e:
        import traceback
        ctx.clause("budget_one" if cfg["iterations"] == 1 else "returns")
        viol("budget_one" if cfg["iterations"] == 1 else "returns", "raises/ZeroDivisionError/budget=%s" % ("1" if cfg["iterations"] == 1 else "n"),
             exc=traceback.format_exc()[-300:])
        return
    except Exception as e:
        import traceback
        ctx.clause("returns")
        viol("returns", "raises/%s/%s" % (type(e).__name__, tagm), exc=traceback.format_exc()[-400:])
        return
    if cfg["iterations"] == 1:
        ctx.clause("budget_one")

    def D(a6, b6):
        return float(np.asarray(dist_f(tm(np.array(a6)), tm(np.array(b6)))).reshape(-1)[0])

    def C(a6, b6):
        return bool(coll_f(PathNode(tm(np.array(a6))), PathNode(tm(np.array(b6)))))
    root = key6(start)
    placed = [root]
    cost = {root: 0.0}
    parent = {root: None}
    last_gen = None
    last_nn_multi = None
    rejected = 0
    gens_since_place = 0
    for ev in events:
        if ev["k"] == "gen":
            last_gen = ev["p"]
            gens_since_place += 1
        elif ev["k"] == "nn" and ev["n"] != 1 or (ev["k"] == "nn" and cfg["limit"] == 1 and ev["q"] == last_gen):
            last_nn_multi = ev
        elif ev["k"] == "place":
            p = ev["p"]
            rejected += max(0, gens_since_place - 1)
            gens_since_place = 0
            ctx.clause("accept_band")
            if p != last_gen:
                viol("accept_band", "placed_node_is_not_last_sample/" + tagm, placed=p, last=last_gen)
                return
            P = np.array(placed)
            d6 = np.linalg.norm(P - np.array(p), axis=1)
            order = np.argsort(d6, kind="stable")
            nstar = placed[int(order[0])]
            if len(order) > 1 and abs(d6[order[0]] - d6[order[1]]) < 1e-12:
                ctx.bump("ties", "nearest")
            dn = D(p, nstar)
            if dn > cfg["max"] * (1 + 1e-12) or dn < cfg["min"] * (1 - 1e-12):
                viol("accept_band", "accepted_outside_band/%s/%s" % ("too_far" if dn > cfg["max"] else "too_close", tagm), dist=dn, min=cfg["min"], max=cfg["max"])
            if C(p, nstar):
                viol("accept_band", "accepted_with_blocked_nearest/" + tagm, node=p, nearest=nstar)
            # examined neighbours
            ctx.clause("parent_choice")
            exam = [tuple(x) for x in (last_nn_multi["res"] if last_nn_multi and last_nn_multi["q"] == p else [])]
            k = min(cfg["limit"], len(placed))
            brute = set(placed[int(i)] for i in order[:k])
            if exam and not (set(exam) >= brute or (len(order) > k and abs(d6[order[k - 1]] - d6[order[k]]) < 1e-12)):
                viol("parent_choice", "examined_set_is_not_knn/" + tagm, examined=len(exam), k=k)
            cands = {nstar: cost[nstar] + dn}
            for n in exam:
                if n in cost and not C(p, n):
                    cands[n] = cost[n] + D(p, n)
            best = min(cands.values())
            par = ev["parent"]
            if par not in cost:
                viol("parent_choice", "parent_not_in_tree/" + tagm, parent=par)
                return
            got = cost[par] + D(p, par)
            if got > best + 1e-12 * max(1.0, abs(best)):
                viol("parent_choice", "parent_not_cheapest/" + tagm, chosen_cost=got, best_cost=best, candidates=len(cands))
            if par not in cands:
                viol("parent_choice", "parent_not_a_free_candidate/" + tagm, parent=par)
            ctx.clause("cost_recurrence")
            if abs(ev["cost"] - got) > 1e-9 * max(1.0, abs(got)) or abs(ev["pcost"] - cost[par]) > 1e-9 * max(1.0, cost[par]):
                viol("cost_recurrence", "cost_not_parent_plus_distance/" + tagm, stored=ev["cost"], expected=got)
            placed.append(p)
            cost[p] = ev["cost"]
            parent[p] = par
    if rejected:
        cfg["_rejected"] = rejected
    # ---- final tree through the public interface ----
    tree.nearestNeighbors = orig_nn
    tree.place = orig_place
    ctx.clause("count")
    allnodes = [x.object for x in tree.getAll()]
    if tree.getCount() != cfg["iterations"] + 1 or len(allnodes) != cfg["iterations"] + 1 or len(placed) != cfg["iterations"] + 1:
        viol("count", "count/" + tagm, count=tree.getCount(), getall=len(allnodes), placed=len(placed), iterations=cfg["iterations"])
    ctx.clause("root")
    if root not in [key6(n.getPosition()) for n in allnodes] or any(key6(n.getPosition()) == root and n.getParent() is not None for n in allnodes):
        viol("root", "root_missing_or_has_parent/" + tagm)
    for n in allnodes:
        ctx.clause("reaches_root")
        cur = n
        steps = 0
        ok = True
        while cur.getParent() is not None:
            par = cur.getParent()
            a, b = key6(cur.getPosition()), key6(par.getPosition())
            ctx.clause("edges_free")
            if C(a, b):
                viol("edges_free", "edge_blocked/" + tagm, a=a, b=b)
                ok = False
                break
            if not custom and any(segbox.hit_exact(list(a[:3]), list(b[:3]), lo.tolist(), hi.tolist()) for lo, hi in boxes):
                viol("edges_free", "edge_blocked_exact_oracle/" + tagm, a=a, b=b)
                ok = False
                break
            ctx.clause("cost_recurrence")
            cc = float(np.asarray(cur.getCost()).reshape(-1)[0])
            pc = float(np.asarray(par.getCost()).reshape(-1)[0])
            if abs(cc - (pc + D(a, b))) > 1e-9 * max(1.0, cc):
                viol("cost_recurrence", "cost_not_parent_plus_distance/final/" + tagm, cost=cc, parent_cost=pc, d=D(a, b))
                ok = False
                break
            cur = par
            steps += 1
            if steps > len(allnodes):
                viol("reaches_root", "cycle_or_overlong_chain/" + tagm)
                ok = False
                break
        if ok and key6(cur.getPosition()) != root:
            viol("reaches_root", "chain_does_not_end_at_root/" + tagm, end=key6(cur.getPosition()))
        if not ok:
            break
    ctx.clause("path")
    try:
        pk = [key6(p) for p in path]
    except Exception as e:
        viol("path", "path_unreadable/" + tagm, exc=repr(e)[:200])
        return
    if len(pk) < 2 or pk[0] != root or pk[-1] != key6(goal):
        viol("path", "path_endpoints/" + tagm, first=pk[0] if pk else None, last=pk[-1] if pk else None)
    else:
        for a, b in zip(pk[:-2], pk[1:-1]):
            if parent.get(b, "?") != a:
                viol("path", "path_not_parent_chain/" + tagm, a=a, b=b)
                break
        # (which tree node precedes the goal is not fixed by the property: nearest, cheapest, any)
        if pk[-2] not in set(placed):
            viol("path", "path_leaves_the_tree/" + tagm)


def run_shard(spec, ctx):
    from ..worker import import_target
    import_target()
    from basic_robotics.general import tm, fsr
    from basic_robotics.path_planning.pathplanner import RRTStar, PathNode
    import contextlib
    import io
    rng = ctx.rng
    for i in range(int(spec["n"])):
        cfg = gen_config(rng, int(spec["maxit"]))
        if i == 0:
            cfg["iterations"] = 1
        ctx.cls("callbacks:" + cfg["callbacks"])
        ctx.cls("layout:" + cfg["layout"])
        ctx.cls("dmode:%d" % cfg["dmode"])
        ctx.cls("budget:%d" % cfg["iterations"])
        try:
            with contextlib.redirect_stdout(io.StringIO()):
                run_case(cfg, ctx, tm, fsr, RRTStar, PathNode)
        except Exception:
            import traceback
            ctx.violation("harness", "unexpected", {"exc": traceback.format_exc()[-800:]}, cfg)
        ctx.case({k: cfg[k] for k in ("bounds", "dmode", "min", "max", "iterations", "limit", "layout", "callbacks", "seed")},
                 bool(cfg["iterations"] >= 10 and (cfg["boxes"] or cfg["terrain"] or cfg.get("_rejected"))), sample_every=0)
    ctx.samples.append({k: cfg[k] for k in ("dmode", "min", "max", "iterations", "limit", "layout", "callbacks", "seed")})


def replay(case, ctx):
    from ..worker import import_target
    import_target()
    from basic_robotics.general import tm, fsr
    from basic_robotics.path_planning.pathplanner import RRTStar, PathNode
    import contextlib
    import io
    ctx.case("replay", True)
    with contextlib.redirect_stdout(io.StringIO()):
        run_case(case, ctx, tm, fsr, RRTStar, PathNode)
