"""C14 - value semantics: operators and queries neither mutate nor alias their operands."""
import copy
import inspect
import math
import types
import numpy as np

from .. import armlib, gen, splib, tol
from ..oracle import se3
from . import c02

PI = math.pi

META = {
    "level": "exploration",
    "rule": ("catalogue of operations: tm / Screw / Wrench operators (both operand positions, object/array/scalar right operands), "
             "inv, copy, copy constructors, get-accessors; localToGlobal, globalToLocal, distance, arcDistance, midpoints, gap "
             "closing, IKPath, mirror, lookAt, pose errors, twistToGoal; Arm and SP constructors; all functions of the Modern "
             "Robotics port.  Each application fingerprints every operand before and after (bytes, id and memory extent of every "
             "reachable ndarray); for operators, copies and get-accessors the result's arrays must not share memory with an "
             "operand array (np.shares_memory) and every in-place mutation of the result (element assignment on the object and "
             "on each array it exposes) must leave the operands' fingerprints unchanged.  Default-constructed tm/Screw/Wrench "
             "are re-checked after abusing earlier instances and the __defaults__ of every public callable in scope are "
             "fingerprinted before and after the whole run.  Non-trivial: generic (non-identity) operands; distinct by "
             "(operation, operand kinds, quantised operands)."),
    "assumptions": ["excluded exactly as the property lists: index/slice access, frame/position metadata objects of screws and "
                    "wrenches, the Screw->Wrench conversion constructor, documented in-place targets (changeFrame receiver, "
                    "rotationFromVector first argument, AngleMod, joint clamping in FK)",
                    "helpers that may return an operand itself (closeLinearGap with zero gap, IKPath's last element) are only checked "
                    "for non-mutation, as the statement requires"],
}
REQUIRED_CLASSES = ["operand:data_with_exact_zeros", "operand:tm_with_more_than_a_full_turn"]
REQUIRED_REACH = ['general/faser_transform.py:tm.copy', 'general/faser_transform.py:tm.gTM', 'general/faser_screw.py:Screw.copy', 'general/faser_screw.py:Screw.__add__', 'general/basic_helpers.py:localToGlobal', 'kinematics/arm_model.py:Arm.__init__', 'kinematics/sp_model.py:SP.__init__']
REQUIRED_CLAUSES = ["no_mutation", "no_alias", "mutate_result", "fresh_defaults", "defaults_table", "ctor.arm", "ctor.sp", "mr.args"]


def arrays_of(x, depth=0):
    """Reachable numeric payload arrays of an operand (metadata objects of screws/wrenches excluded)."""
    if isinstance(x, np.ndarray):
        return [x]
    out = []
    if hasattr(x, "TM") and hasattr(x, "TAA"):
        return [x.TM, x.TAA]
    if hasattr(x, "data") and hasattr(x, "frame_applied"):
        return [x.data] if isinstance(x.data, np.ndarray) else []
    if isinstance(x, (list, tuple)) and depth < 3:
        for y in x:
            out += arrays_of(y, depth + 1)
    return out


def fp(x):
    return [(id(a), a.shape, a.tobytes(), a.__array_interface__["data"][0]) for a in arrays_of(x)]


def result_arrays(r):
    if isinstance(r, np.ndarray):
        return [r]
    if hasattr(r, "TM") or hasattr(r, "data"):
        return arrays_of(r)
    if isinstance(r, (list, tuple)):
        out = []
        for y in r:
            out += result_arrays(y)
        return out
    return []


def mutate_everything(r):
    """Every in-place mutation of a result: element assignment on the object and on each array it exposes."""
    if isinstance(r, np.ndarray):
        if r.flags.writeable and r.size:
            r[...] = r + 7.5 if r.dtype.kind == "f" else r
        return
    if hasattr(r, "TM") and hasattr(r, "TAA"):
        for acc in ("gPos", "gTM", "gTAA", "gRot"):
            try:
                a = getattr(r, acc)()
                if isinstance(a, np.ndarray) and a.flags.writeable:
                    a[...] = a + 3.25
            except Exception:
                pass
        try:
            r[0] = 123.0
            r[4] = 0.77
            r[3:6] = np.array([0.1, 0.2, 0.3])
        except Exception:
            pass
        for a in (r.TM, r.TAA):
            a[...] = a + 1.5
        return
    if hasattr(r, "data") and hasattr(r, "frame_applied"):
        for acc in ("getData", "flatten", "getForce", "getMoment"):
            if hasattr(r, acc):
                try:
                    a = getattr(r, acc)()
                    if isinstance(a, np.ndarray) and a.flags.writeable:
                        a[...] = a + 3.25
                except Exception:
                    pass
        try:
            r[2] = -55.0
        except Exception:
            pass
        if isinstance(r.data, np.ndarray):
            r.data[...] = r.data + 1.5
        return
    if isinstance(r, (list, tuple)):
        for y in r:
            mutate_everything(y)


def plan(tier, seed):
    if tier == "quick":
        return [{"n": 30, "timeout_s": 1800} for _ in range(16)]
    return [{"n": 3000, "timeout_s": 14400} for _ in range(16)] + [{"mode": "suite", "n": 0, "timeout_s": 3600}]


def defaults_table(mods):
    tab = {}
    for mod in mods:
        for name, obj in list(vars(mod).items()):
            fns = []
            if isinstance(obj, types.FunctionType):
                fns.append((name, obj))
            elif isinstance(obj, type) and obj.__module__ == mod.__name__:
                for n2, o2 in vars(obj).items():
                    if isinstance(o2, types.FunctionType):
                        fns.append((name + "." + n2, o2))
            for qn, f in fns:
                if f.__defaults__:
                    vals = []
                    for dflt in f.__defaults__:
                        if isinstance(dflt, np.ndarray):
                            vals.append(("nd", dflt.shape, dflt.tobytes()))
                        elif hasattr(dflt, "TM") and hasattr(dflt, "TAA"):
                            vals.append(("tm", dflt.TM.tobytes(), dflt.TAA.tobytes()))
                        elif hasattr(dflt, "data") and hasattr(dflt, "frame_applied"):
                            vals.append(("screw", np.asarray(dflt.data).tobytes()))
                        elif isinstance(dflt, (list, dict)):
                            vals.append(("container", repr(dflt)))
                    if vals:
                        tab[mod.__name__ + ":" + qn] = vals
    return tab


def run_shard(spec, ctx):
    if spec.get("mode") == "suite":
        from ..worker import import_target
        from ..suite import run_under_monitors
        import_target()
        run_under_monitors(ctx, "C14", timeout_s=spec["timeout_s"] - 120)
        return
    bm = armlib.load_bm()
    tm, fsr, Wrench = bm["tm"], bm["fsr"], bm["Wrench"]
    from basic_robotics.general import Screw
    from basic_robotics.modern_robotics_numba import mr
    import basic_robotics.general.faser_transform as m_tm
    import basic_robotics.general.faser_screw as m_sc
    import basic_robotics.general.faser_wrench as m_wr
    import basic_robotics.general.faser_general as m_fg
    import basic_robotics.general.basic_helpers as m_bh
    import basic_robotics.kinematics.arm_model as m_arm
    import basic_robotics.kinematics.sp_model as m_sp
    import basic_robotics.kinematics.robot_model as m_rb
    mods = [m_tm, m_sc, m_wr, m_fg, m_bh, m_arm, m_sp, m_rb]
    table0 = defaults_table(mods)
    rng = ctx.rng

    def T():
        if rng.random() < 0.12:
            # a six-vector that carries more than a full turn on one axis (kept as given by the constructor): helpers that "wrap" such a
            # pose must do it on a copy
            v = gen.taa(rng, 10.0, ["generic"])
            v[3:] = 0.0
            v[3 + int(rng.integers(0, 3))] = float(rng.choice([-1.0, 1.0]) * rng.uniform(2 * math.pi + 0.1, 3 * math.pi))
            ctx.cls("operand:tm_with_more_than_a_full_turn")
            return tm(v)
        return tm(gen.taa(rng, 10.0, ["generic", "generic2", "1e-3", "pi-1e-3"]))

    def S(cls=Screw, sparse=False):
        d = rng.normal(size=(6, 1)) * 5
        if sparse:      # pure forces / pure moments / axis-aligned screws: exact zeros (of either sign) in the data vector
            z = rng.random((6, 1)) < 0.5
            z[int(rng.integers(6))] = True
            d = np.where(z, np.where(rng.random((6, 1)) < 0.5, 0.0, -0.0), d)
        if cls is Screw:
            return Screw(d, T())
        return Wrench(d, T(), T())

    def apply(name, fn, operands, kind, desc):
        """kind: 'value' (operators/copies/accessors: no mutation + no alias + mutate result) or 'helper' (no mutation only)."""
        before = [fp(o) for o in operands]
        ctx.case([name, desc, hash(tuple(x[2] for b in before for x in b))], True, sample_every=211,
                 sample={"operation": name, "operands": [[np.asarray(a).ravel().tolist()[:16] for a in arrays_of(o)] for o in operands]})
        try:
            r = fn(*operands)
        except Exception as e:
            ctx.bump("raised", name + ":" + type(e).__name__)
            r = None
        ctx.clause("no_mutation")
        for i, (o, b) in enumerate(zip(operands, before)):
            if fp(o) != b:
                ctx.violation("no_mutation", "mutates_operand/%s/arg%d" % (name, i), {"operand": i}, {"op": name, "desc": desc})
                return
        if kind != "value" or r is None:
            return
        ctx.clause("no_alias")
        ra = result_arrays(r)
        for a in ra:
            for i, o in enumerate(operands):
                for oa in arrays_of(o):
                    if np.shares_memory(a, oa):
                        ctx.violation("no_alias", "result_aliases_operand/%s/arg%d" % (name, i), {"operand": i}, {"op": name, "desc": desc})
                        return
        ctx.clause("mutate_result")
        mutate_everything(r)
        for i, (o, b) in enumerate(zip(operands, before)):
            if fp(o) != b:
                ctx.violation("mutate_result", "mutating_result_changes_operand/%s/arg%d" % (name, i), {"operand": i}, {"op": name, "desc": desc})
                return

    for _ in range(int(spec["n"])):
        a, b = T(), T()
        arr6 = rng.normal(size=6)
        # identity elements are where 'return self' shortcuts hide: 0 for +/-, 1 for * and /
        k = gen.pick(rng, [float(rng.uniform(0.5, 3)), float(rng.uniform(0.5, 3)), 1, 1.0, -1.0])
        k0 = gen.pick(rng, [float(rng.uniform(0.5, 3)), 0, 0.0, 0, 1])
        M4 = se3.taa_to_T(gen.taa(rng, 10.0, ["generic"]))
        d = "tm"
        for name, fn, ops in [
            ("tm@tm", lambda x, y: x @ y, [a, b]), ("tm*tm", lambda x, y: x * y, [a, b]), ("tm+tm", lambda x, y: x + y, [a, b]),
            ("tm-tm", lambda x, y: x - y, [a, b]), ("tm//tm", lambda x, y: x // y, [a, b]), ("tm@nd", lambda x, y: x @ y, [a, M4]),
            ("tm+nd6", lambda x, y: x + y, [a, arr6]), ("tm-nd6", lambda x, y: x - y, [a, arr6]), ("tm*k", lambda x: x * k, [a]),
            ("tm+k", lambda x: x + k0, [a]), ("tm-k", lambda x: x - k0, [a]), ("tm@I", lambda x, y: x @ y, [a, tm()]), ("I@tm", lambda x, y: y @ x, [a, tm()]),
            ("k*tm", lambda x: k * x, [a]), ("tm/k", lambda x: x / k, [a]), ("tm//k", lambda x: x // k, [a]), ("abs(tm)", lambda x: abs(x), [a]),
            ("tm.inv", lambda x: x.inv(), [a]), ("tm.copy", lambda x: x.copy(), [a]), ("tm(tm)", lambda x: tm(x), [a]),
            ("tm.T", lambda x: x.T(), [a]), ("tm.gTM", lambda x: x.gTM(), [a]), ("tm.gTAA", lambda x: x.gTAA(), [a]), ("tm.gRot", lambda x: x.gRot(), [a]),
            ("tm.gPos", lambda x: x.gPos(), [a]), ("tm.getQuat", lambda x: x.getQuat(), [a]), ("tm.adjoint", lambda x: x.adjoint(), [a]),
            ("tm.exp6", lambda x: x.exp6(), [a]), ("tm.approx", lambda x: x.approx(), [a]), ("tm.tripleUnit", lambda x: x.tripleUnit(), [a]),
            ("tm(nd4x4)", lambda y: tm(y), [M4]), ("tm(nd6)", lambda y: tm(y), [arr6]),
        ]:
            apply(name, fn, ops, "value", d)
        for cls, cn, sparse in ((Screw, "Screw", False), (Wrench, "Wrench", False), (Screw, "Screw", True), (Wrench, "Wrench", True)):
            s1, s2 = S(cls, sparse), S(cls, sparse)
            if sparse:
                ctx.cls("operand:data_with_exact_zeros")
            for name, fn, ops in [
                (cn + "+obj", lambda x, y: x + y, [s1, s2]), (cn + "-obj", lambda x, y: x - y, [s1, s2]), (cn + "+nd6", lambda x, y: x + y, [s1, arr6]),
                (cn + "-nd6", lambda x, y: x - y, [s1, arr6]), ("nd6-" + cn, lambda x, y: y - x, [s1, arr6]), (cn + "+k", lambda x: x + k0, [s1]),
                ("k+" + cn, lambda x: k0 + x, [s1]), ("sum([" + cn + "])", lambda x: sum([x]), [s1]), ("sum([" + cn + "," + cn + "])", lambda x, y: sum([x, y]), [s1, S(cls)]),
                (cn + "-k", lambda x: x - k0, [s1]), ("k-" + cn, lambda x: k0 - x, [s1]), (cn + "*k", lambda x: x * k, [s1]), ("k*" + cn, lambda x: k * x, [s1]),
                (cn + "/k", lambda x: x / k, [s1]), (cn + "//k", lambda x: x // k, [s1]), ("k/" + cn, lambda x: k / x, [s1]), ("k//" + cn, lambda x: k // x, [s1]),
                ("nd6*" + cn, lambda x, y: y * x, [s1, arr6]), ("nd6/" + cn, lambda x, y: y / x, [s1, arr6]), (cn + "*nd6", lambda x, y: x * y, [s1, arr6]), (cn + "/nd6", lambda x, y: x / y, [s1, arr6]),
                ("-" + cn, lambda x: -x, [s1]), (cn + "==" + cn, lambda x, y: x == y, [s1, s2]), ("abs(" + cn + ")", lambda x: abs(x), [s1]),
                (cn + ".copy", lambda x: x.copy(), [s1]), (cn + ".getData", lambda x: x.getData(), [s1]), (cn + ".flatten", lambda x: x.flatten(), [s1]),
                (cn + ".reshape", lambda x: x.reshape((6,)), [s1]), (cn + ".cross", lambda x, y: x.cross(y), [s1, s2]), (cn + ".dot", lambda x, y: x.dot(y), [s1, s2]),
                (cn + "*obj", lambda x, y: x * y, [s1, s2]), (cn + "@obj", lambda x, y: x @ y, [s1, s2]),
            ]:
                apply(name, fn, ops, "value", cn)
            if cls is Wrench:
                apply("Wrench.getForce", lambda x: x.getForce(), [s1], "value", cn)
                apply("Wrench.getMoment", lambda x: x.getMoment(), [s1], "value", cn)
            f1, f2 = T(), T()
            # changeFrame mutates its receiver by contract; its frame arguments must stay intact
            apply(cn + ".changeFrame(args)", lambda fr1, fr2: S(cls).changeFrame(fr1, fr2), [f1, f2], "helper", cn)
        c = T()
        for name, fn, ops in [
            ("localToGlobal", fsr.localToGlobal, [a, b]), ("globalToLocal", fsr.globalToLocal, [a, b]),
        ]:
            apply(name, fn, ops, "value", "helper")
        for name, fn, ops in [
            ("distance", fsr.distance, [a, b]), ("arcDistance", fsr.arcDistance, [a, b]), ("tmAvgMidpoint", fsr.tmAvgMidpoint, [a, b]),
            ("tmInterpMidpoint", fsr.tmInterpMidpoint, [a, b]), ("closeLinearGap", lambda x, y: fsr.closeLinearGap(x, y, 0.3), [a, b]),
            ("closeArcGap", lambda x, y: fsr.closeArcGap(x, y, 0.3), [a, b]), ("IKPath", lambda x, y: fsr.IKPath(x, y, 7), [a, b]),
            ("mirror", fsr.mirror, [a, b]), ("lookAt", fsr.lookAt, [a, b]), ("poseError", fsr.poseError, [a, b]), ("geometricError", fsr.geometricError, [a, b]),
            ("twistToGoal", fsr.twistToGoal, [a, b]), ("adjustRotationToMidpoint", fsr.adjustRotationToMidpoint, [a, b, c]),
            ("adjustRotationToMidpoint(mode=1)", lambda x, y, z: fsr.adjustRotationToMidpoint(x, y, z, 1), [a, b, c]),
            ("planeFromThreePoints", fsr.planeFromThreePoints, [a, b, c]), ("angleBetween", fsr.angleBetween, [a, b, c]),
            ("getUnitVec", fsr.getUnitVec, [a, b]), ("twistFromTransform", fsr.twistFromTransform, [a]), ("transformFromTwist", fsr.transformFromTwist, [arr6]),
            ("transformByVector", fsr.transformByVector, [a, arr6[:3].copy()]), ("chainJacobian", fsr.chainJacobian, [gen.screw_axes(rng, 4), rng.normal(size=4)]),
            ("TAAtoTM", fsr.TAAtoTM, [arr6.reshape((6, 1)).copy()]), ("TMtoTAA", fsr.TMtoTAA, [M4.copy()]),
            ("transformWrenchFrame", fsr.transformWrenchFrame, [S(Wrench), a, b]), ("planePointsFromTransform", fsr.planePointsFromTransform, [a]),
            ("getSurfaceNormal", fsr.getSurfaceNormal, [[a, b, c]]), ("getSurfaceNormal(center)", fsr.getSurfaceNormal, [[a, b, c], T()]),
            ("twistToScrew", fsr.twistToScrew, [arr6.reshape((6, 1)).copy()]), ("normalizeTwist", fsr.normalizeTwist, [arr6.copy()]),
            ("getUnitVec(dist)", lambda x, y: fsr.getUnitVec(x, y, 2.5, True), [a, b]),
            ("numericalJacobian", lambda x: fsr.numericalJacobian(lambda v: np.sin(v) * 2, x, 1e-4), [arr6.copy()]), ("makeWrench", lambda p, v: fsr.makeWrench(p, 3.0, v), [a, arr6[:3].copy()]),
        ]:
            apply(name, fn, ops, "helper", "helper")

    # ---- fresh defaults after abuse --------------------------------------------------------------------------
    for _ in range(20):
        ctx.clause("fresh_defaults")
        t0, s0, w0 = tm(), Screw(), Wrench()
        ok = (np.array_equal(t0.gTM(), np.eye(4)) and np.array_equal(np.asarray(t0.gTAA()).reshape(-1), np.zeros(6))
              and np.array_equal(np.asarray(s0.getData()).reshape(-1), np.zeros(6)) and np.array_equal(np.asarray(w0.getData()).reshape(-1), np.zeros(6))
              and np.array_equal(s0.frame_applied.gTM(), np.eye(4)) and np.array_equal(w0.frame_applied.gTM(), np.eye(4)))
        if not ok:
            which = "tm" if not np.array_equal(t0.gTM(), np.eye(4)) else "Screw" if not np.array_equal(np.asarray(s0.getData()).reshape(-1), np.zeros(6)) else "Wrench_or_frame"
            ctx.violation("fresh_defaults", "default_instance_not_fresh/" + which, {}, {"op": "default ctor"})
            break
        mutate_everything(t0)
        mutate_everything(s0)
        mutate_everything(w0)
        s0[1] = 9.0
        w0[1] = 9.0
        s0.frame_applied[0] = 4.0
        w0.frame_applied[0] = 4.0
        w0.position_applied[0] = 4.0

    # ---- robot constructors ----------------------------------------------------------------------------------
    for _ in range(max(2, int(spec["n"]) // 10)):
        desc = armlib.random_desc(rng) if rng.random() < 0.8 else armlib.test6r_desc()
        base = tm(np.array(armlib.random_base(rng, 0.2)))
        Sarr = np.array(desc["S"], dtype=float)
        q = np.array(desc["q"], dtype=float)
        ee = tm(np.array(desc["M"], dtype=float))
        axes = Sarr[:3, :].copy()
        ops = [base, Sarr, ee, q, axes]
        before = [fp(o) for o in ops]
        ctx.clause("ctor.arm")
        ctx.case(["Arm()", gen.quant(Sarr, 1e-6)[:12]], True)
        try:
            arm = bm["Arm"](*ops)
            th = rng.uniform(-1, 1, Sarr.shape[1])
            arm.FK(th.copy())
            arm.move(tm(np.array(armlib.random_base(rng, 0.0))))
            arm.jacobian()
        except Exception as e:
            ctx.bump("raised", "Arm():" + type(e).__name__)
        for i, (o, b) in enumerate(zip(ops, before)):
            if fp(o) != b:
                ctx.violation("ctor.arm", "Arm_ctor_alters/" + ["base", "screw_list", "end_effector_home", "joint_poses_home", "joint_axes"][i], {}, {"op": "Arm()"})
                break
        g = splib.gen_geometry(rng, "direct")
        bj, tj = splib.param_joints(g)
        h = splib.neutral_height(g, bj, tj)
        bT = tm(np.array(g["base"]))
        tT = bT @ tm(np.array([0, 0, h, 0, 0, 0.0]))
        ops = [bj, tj, bT, tT]
        before = [fp(o) for o in ops]
        ctx.clause("ctor.sp")
        ctx.case(["SP()", gen.quant([g["rb"], g["rt"]], 1e-6)], True)
        try:
            from basic_robotics.kinematics.sp_model import SP
            sp = SP(bj, tj, bT, tT, g["lmin"], g["lmax"], g["bth"], g["tth"], "x")
            sp.IK(top_plate_pos=tT @ tm(np.array([0.01, 0, 0.02, 0.01, 0, 0.0])))
            sp.FK(sp.getLens().copy())
            sp.spinCustom(0.3)
            sp.move(tm(np.array([1, 2, 3, 0.1, 0.2, 0.3])))
        except Exception as e:
            ctx.bump("raised", "SP():" + type(e).__name__)
        for i, (o, b) in enumerate(zip(ops, before)):
            if fp(o) != b:
                ctx.violation("ctor.sp", "SP_ctor_alters/" + ["bottom_joints", "top_joints", "bT", "tT"][i], {}, {"op": "SP()"})
                break

    # ---- Modern Robotics port: arguments left unaltered ------------------------------------------------------
    names = [n for n, o in vars(mr).items() if callable(o) and not n.startswith("_") and getattr(o, "__module__", None) in (mr.__name__, None)
             or hasattr(o, "py_func")]
    names = sorted(set(n for n in names if n in c02.shared_names(mr, c02.load_ref()) or hasattr(getattr(mr, n), "py_func")))
    from . import c17
    for name in names:
        if name == "AngleMod":
            continue
        for _ in range(max(1, int(spec["n"]) // 30)):
            try:
                args = c17.kernel_args(name, rng)
            except KeyError:
                try:
                    args = c02.gen_args(name, rng, "quick")
                except KeyError:
                    continue
            args = list(args)
            before = [fp(o) for o in args]
            ctx.clause("mr.args")
            ctx.case(["mr." + name, gen.quant(c17.flat(args), 1e-6)[:12]], True, sample_every=97)
            try:
                getattr(mr, name)(*args)
            except Exception as e:
                ctx.bump("raised", "mr." + name + ":" + type(e).__name__)
            out_params = {"SPIKinSpace": (4, 5)}.get(name, ())
            for i, (o, b) in enumerate(zip(args, before)):
                if i in out_params:
                    continue
                if fp(o) != b:
                    ctx.violation("mr.args", "mr_alters_argument/%s/arg%d" % (name, i), {}, {"op": "mr." + name})
                    break
    ctx.clause("defaults_table")
    table1 = defaults_table(mods)
    ctx.extra["default_arguments_fingerprinted"] = len(table0)
    for kname in table0:
        if table0[kname] != table1.get(kname):
            ctx.violation("defaults_table", "default_argument_changed/" + kname.split(":")[1], {}, {"op": "defaults", "callable": kname})


def replay(case, ctx):
    if "suite_test" in case:
        from ..suite import run_under_monitors
        run_under_monitors(ctx, "C14", select=[case["suite_test"]])
        return
    ctx.inconc("C14 cases are regenerated from the seed: re-run the tier with the same VERIF_SEED")
