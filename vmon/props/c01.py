"""C01 - exp/log/hat/vee/inverse/adjoint of the Numba Modern Robotics port."""
import math
import numpy as np

from .. import gen, tol
from ..oracle import se3

PI = math.pi

META = {
    "level": "exploration",
    "rule": ("seeded cases (w, v, p, w2, p2, u): rotation vector w from angle class x axis class "
             "(boundary classes around the 1e-6 cut-off, the half turn and 2*pi; coordinate axes, coordinate "
             "planes, generic), linear parts / positions from magnitude classes {0,1e-6,1,10,1e3}; plus exact "
             "half-turn matrices 2nn^T-I.  Every case evaluates all clauses against an independent "
             "scipy/closed-form oracle.  Non-trivial: rotation angle > 1e-3 or a non-zero linear part; distinct "
             "by the case values quantised to 1e-9."),
    "assumptions": [
        "oracle = scipy Rotation + closed-form V(w) matrices, cross-checked against scipy expm/logm to 4e-14",
        "inputs are C-contiguous float64 (other layouts are C17's business)",
        "tolerance model of DESIGN section 4: 5e-6 absolute on unit-scale entries, 1e-9 relative on larger "
        "ones, translation tolerance scaled by |p| when a rotation vector lies in the (0, 2e-6) cut-off band",
    ],
}

REQUIRED_CLAUSES = ["exp3.proper", "exp3.value", "exp6.proper", "exp6.value", "log3exp3.vec", "exp3log3.mat",
                    "log6exp6.vec", "exp6log6.mat", "hatvee3", "hatvee6", "inv", "ad.hom", "ad.inv", "ad.conj",
                    "exp3log3.halfturn_exact"]
REQUIRED_CLASSES = ["angle:cut-", "angle:cut+", "angle:pi", "angle:pi-1e-7", "angle:over_pi", "axis:+e3", "axis:plane_xy",
                    "axis:generic"]


def plan(tier, seed):
    if tier == "quick":
        nshard, n = 16, 5000
    else:
        nshard, n = 16, 190000
    return [{"n": n, "timeout_s": 3600} for _ in range(nshard)]


def gen_case(rng):
    w, ac, xc = gen.rotvec(rng, return_cls=True)
    if rng.random() < 0.05:
        # a rotation a hair short of a half turn about an axis with one tiny component: the badly scaled pivot of the half-turn formulas
        ac, xc = gen.pick(rng, ["pi-1e-7", "pi-1e-8", "pi-1e-9", "near_pi", "near_pi"]), "small_component"
        w = gen.axis(rng, xc) * gen.angle(rng, ac)
    v = gen.vec3(rng, 1e3)
    p = gen.vec3(rng, 1e3)
    if rng.random() < 0.5:
        w2 = gen.rotvec(rng)
    else:
        w2 = gen.rand_unit(rng) * rng.uniform(0, PI)
    p2 = gen.vec3(rng, 1e3)
    u = np.concatenate([rng.normal(size=3), gen.vec3(rng, 10.0)])
    return {"w": w.tolist(), "v": v.tolist(), "p": p.tolist(), "w2": w2.tolist(), "p2": p2.tolist(),
            "u": u.tolist(), "ac": ac, "xc": xc}


def _c(x):
    return np.ascontiguousarray(np.asarray(x, dtype=np.float64))


def check_case(case, ctx, mr):
    w = np.array(case["w"], dtype=float)
    v = np.array(case["v"], dtype=float)
    p = np.array(case["p"], dtype=float)
    w2 = np.array(case["w2"], dtype=float)
    p2 = np.array(case["p2"], dtype=float)
    u = np.array(case["u"], dtype=float)
    th = float(np.linalg.norm(w))
    in_band = 0.0 < th < tol.BAND
    th2 = float(np.linalg.norm(w2))
    in_band2 = 0.0 < th2 < tol.BAND

    def bad(clause, key, **detail):
        ctx.violation(clause, key, detail, case)

    def cl(a, b, t):
        ok, e = tol.close(a, b, t)
        ctx.err(getattr(ctx, "last_clause", "?"), e if np.isfinite(e) else 1e300)
        return ok, e

    def angle_zone():
        if th < 3e-6:
            return "near_zero"
        if abs(th - PI) < 2e-5:
            return "near_half_turn"
        if th > PI:
            return "over_pi"
        return "regular"

    Ro = se3.exp3(w)
    # ---- (6) hat / vee -------------------------------------------------
    so = mr.VecToso3(w)
    ctx.clause("hatvee3")
    if not (so.shape == (3, 3) and np.array_equal(so, se3.hat3(w)) and np.array_equal(mr.so3ToVec(so), w)):
        bad("hatvee3", "hatvee3", got=so)
    V = np.concatenate([w, v])
    se = mr.VecTose3(V)
    ctx.clause("hatvee6")
    if not (se.shape == (4, 4) and np.array_equal(se, se3.hat6(V)) and np.array_equal(mr.se3ToVec(se), V)):
        bad("hatvee6", "hatvee6", got=se)

    # ---- (1) exp3 ------------------------------------------------------
    R = mr.MatrixExp3(so)
    ctx.clause("exp3.proper")
    okshape = isinstance(R, np.ndarray) and R.shape == (3, 3) and np.all(np.isfinite(R))
    if not okshape or tol.maxabs(R.T @ R - np.eye(3)) > tol.ABS5 or abs(np.linalg.det(R) - 1) > tol.ABS5:
        bad("exp3.proper", "exp3.proper/" + angle_zone(), got=R)
        return
    ctx.clause("exp3.value")
    ok, e = cl(R, Ro, tol.ABS5)
    if not ok:
        bad("exp3.value", "exp3.value/" + angle_zone(), err=e, theta=th)

    # ---- (2) exp6 ------------------------------------------------------
    T = mr.MatrixExp6(se)
    To = se3.exp6(V)
    ctx.clause("exp6.proper")
    ok_last = isinstance(T, np.ndarray) and T.shape == (4, 4) and np.array_equal(T[3], [0.0, 0.0, 0.0, 1.0])
    if not ok_last or tol.maxabs(T[:3, :3].T @ T[:3, :3] - np.eye(3)) > tol.ABS5 or abs(np.linalg.det(T[:3, :3]) - 1) > tol.ABS5:
        bad("exp6.proper", "exp6.proper/" + angle_zone(), got=T)
        return
    ctx.clause("exp6.value")
    nv = float(np.linalg.norm(v))
    tt = tol.entry_tol(nv, in_band, nv)
    ok1, e1 = cl(T[:3, :3], Ro, tol.ABS5)
    ok2, e2 = cl(T[:3, 3], To[:3, 3], tt)
    if not (ok1 and ok2):
        bad("exp6.value", "exp6.value/" + angle_zone(), err_rot=e1, err_trans=e2, tol_trans=tt, theta=th)

    # ---- (3) log3(exp3(w)) = w  for |w| < pi ---------------------------
    Rc = _c(R)
    L = mr.MatrixLog3(Rc)
    if th < PI - 1e-6:
        ctx.clause("log3exp3.vec")
        wl = mr.so3ToVec(L)
        ok, e = cl(wl, w, tol.ABS5)
        if not ok:
            bad("log3exp3.vec", "log3exp3/" + angle_zone(), err=e, theta=th, got=wl)
    # ---- (4) exp3(log3(R)) = R for every R -----------------------------
    ctx.clause("exp3log3.mat")
    R2 = mr.MatrixExp3(L)
    ok, e = cl(R2, Rc, tol.ABS5)
    if not ok:
        bad("exp3log3.mat", "exp3log3/" + angle_zone(), err=e, theta=th)
    if th > 0:
        # exact half turn about the same axis: R = 2 n n^T - I
        n = w / th
        Rh = _c(2.0 * np.outer(n, n) - np.eye(3))
        ctx.clause("exp3log3.halfturn_exact")
        Rh2 = mr.MatrixExp3(mr.MatrixLog3(Rh))
        ok, e = cl(Rh2, Rh, tol.ABS5)
        if not ok:
            bad("exp3log3.halfturn_exact", "exp3log3/near_half_turn", err=e, axis=n)

    # ---- (5) the same two round trips in SE(3) -------------------------
    Tc = _c(T)
    L6 = mr.MatrixLog6(Tc)
    if th < PI - 1e-6:
        ctx.clause("log6exp6.vec")
        Vl = mr.se3ToVec(L6)
        ok1, e1 = cl(Vl[:3], w, tol.ABS5)
        ok2, e2 = cl(Vl[3:], v, tt)
        if not (ok1 and ok2):
            bad("log6exp6.vec", "log6exp6/" + angle_zone(), err_w=e1, err_v=e2, tol_v=tt, theta=th)
    # every rigid transform T = (R(w), p)
    Tg = _c(se3.rp(Ro, p))
    npn = float(np.linalg.norm(p))
    eff = se3.rot_angle(Ro)          # the angle of R itself (th modulo 2*pi, folded into [0, pi])
    tp = tol.entry_tol(npn, 0.0 < eff < tol.BAND, npn)
    ctx.clause("exp6log6.mat")
    Tg2 = mr.MatrixExp6(mr.MatrixLog6(Tg))
    ok1, e1 = cl(Tg2[:3, :3], Tg[:3, :3], tol.ABS5)
    ok2, e2 = cl(Tg2[:3, 3], Tg[:3, 3], tp)
    if not (ok1 and ok2 and np.array_equal(Tg2[3], [0.0, 0.0, 0.0, 1.0])):
        bad("exp6log6.mat", "exp6log6/" + angle_zone(), err_rot=e1, err_trans=e2, tol_trans=tp, theta=th)

    # ---- (7) inverse ----------------------------------------------------
    ctx.clause("inv")
    Ti = mr.TransInv(Tg)
    ok, e = cl(Ti @ Tg, np.eye(4), tol.entry_tol(npn))
    oko, eo = cl(Ti, se3.inv(Tg), tol.entry_tol(npn))
    okr, er = cl(mr.RotInv(_c(Ro)) @ Ro, np.eye(3), tol.ABS5)
    if not (ok and oko and okr):
        bad("inv", "inv", err=e, err_oracle=eo, err_rot=er)

    # ---- (8)-(10) adjoint ------------------------------------------------
    T2 = _c(se3.rp(se3.exp3(w2), p2))
    T12 = _c(Tg @ T2)
    A1, A2, A12 = mr.Adjoint(Tg), mr.Adjoint(T2), mr.Adjoint(T12)
    sc = max(1.0, npn + float(np.linalg.norm(p2)))
    ctx.clause("ad.hom")
    okh, eh = cl(A12, A1 @ A2, tol.entry_tol(sc))
    oko, eo = cl(A1, se3.Ad(Tg), tol.entry_tol(tol.maxabs(A1)))
    if not (okh and oko and A1.shape == (6, 6)):
        bad("ad.hom", "ad.hom", err=eh, err_oracle=eo)
    ctx.clause("ad.inv")
    Ai = mr.Adjoint(_c(mr.TransInv(Tg)))
    ok, e = cl(Ai @ A1, np.eye(6), tol.entry_tol(max(1.0, npn)))
    oko, eo = cl(Ai, se3.Ad(se3.inv(Tg)), tol.entry_tol(max(1.0, npn)))
    if not (ok and oko):
        bad("ad.inv", "ad.inv", err=e, err_oracle=eo)
    ctx.clause("ad.conj")
    lhs = Tg @ mr.VecTose3(u) @ mr.TransInv(Tg)
    rhs = mr.VecTose3(A1 @ u)
    ok, e = cl(lhs, rhs, tol.entry_tol(max(1.0, npn) * max(1.0, tol.maxabs(u))))
    if not ok:
        bad("ad.conj", "ad.conj", err=e)


def run_shard(spec, ctx):
    from ..worker import import_target
    import_target()
    from basic_robotics.modern_robotics_numba import mr
    n = int(spec["n"])
    for _ in range(n):
        case = gen_case(ctx.rng)
        th = float(np.linalg.norm(case["w"]))
        nontriv = th > 1e-3 or float(np.linalg.norm(case["v"])) > 0 or float(np.linalg.norm(case["p"])) > 0
        ctx.cls("angle:" + case["ac"])
        ctx.cls("axis:" + case["xc"])
        ctx.case({"w": gen.quant(case["w"]), "v": gen.quant(case["v"]), "p": gen.quant(case["p"]),
                  "w2": gen.quant(case["w2"], 1e-6), "ac": case["ac"], "xc": case["xc"]}, nontriv, sample=case)
        try:
            check_case(case, ctx, mr)
        except Exception as e:
            ctx.violation("raises", "raises/%s" % type(e).__name__, {"exc": repr(e)}, case)


def replay(case, ctx):
    from ..worker import import_target
    import_target()
    from basic_robotics.modern_robotics_numba import mr
    ctx.case(case, True)
    try:
        check_case(case, ctx, mr)
    except Exception as e:
        ctx.violation("raises", "raises/%s" % type(e).__name__, {"exc": repr(e)}, case)
