"""C18 - geometric helper functions satisfy their defining relations."""
import math
import numpy as np

from .. import gen, tol
from ..oracle import se3

PI = math.pi

META = {
    "level": "exploration",
    "rule": ("seeded cases of three poses (|p| <= 10, angle <= pi-1e-3, C01 angle/axis classes; mirror planes and "
             "reference frames away from the origin and rotated), step sizes in (0,1], step counts 2..200, point "
             "counts 1..2000, angles in [-50,50] as Python/NumPy scalars, 1-D arrays and 6-vectors.  One independent "
             "relation per helper named in the statement (mirror, tmInterpMidpoint, lookAt, planeFromThreePoints, "
             "distance, arcDistance, closeLinearGap, closeArcGap, IKPath, twistToGoal, chainJacobian, "
             "numericalJacobian, fiboSphere, unitSphere, angleMod / tm.angleMod / mr.AngleMod).  Non-trivial: the "
             "first two poses differ in position and rotation and the reference frame is off-origin and rotated; "
             "distinct by quantised poses."),
    "assumptions": ["tolerance 1e-8 relative to the scale of the quantities; 5e-6 when a rotation involved lies in the "
                    "library's (0, 2e-6) cut-off band (documented NearZero behaviour)",
                    "lookAt targets within 1e-3 rad of the world z axis (as seen from the eye) are excluded from the 1e-8 clause as degenerate; targets exactly above/below get their own clause at 3e-5/distance (the library nudges such a target sideways by 1e-5)",
                    "midpoint / twist clauses restricted to relative rotations <= pi-1e-3 (square root / log unique)",
                    "numericalJacobian is exercised on quadratic maps, for which central differences are exact"],
}
REQUIRED_REACH = ['general/faser_general.py:mirror', 'general/faser_general.py:tmInterpMidpoint', 'general/faser_general.py:lookAt', 'general/faser_general.py:planeFromThreePoints', 'general/faser_general.py:closeLinearGap', 'general/faser_general.py:closeArcGap', 'general/faser_general.py:IKPath', 'general/faser_general.py:twistToGoal']
REQUIRED_CLASSES = ["lookat_vertical:above", "lookat_vertical:below"]
REQUIRED_CLAUSES = ["mirror.local", "mirror.involution", "midpoint.pos", "midpoint.rot", "lookat", "lookat.vertical", "plane", "distance.metric",
                    "arcdistance", "lineargap", "arcgap", "ikpath", "twist2goal", "chainjac", "numjac", "fibo", "unitsphere",
                    "anglemod.scalar", "anglemod.array", "anglemod.six", "anglemod.tm", "anglemod.mr"]


def plan(tier, seed):
    if tier == "quick":
        return [{"n": 900, "timeout_s": 1800} for _ in range(16)]
    return [{"n": 30000, "timeout_s": 7200} for _ in range(16)]


def gen_case(rng):
    ang = lambda: float(rng.uniform(-50, 50)) if rng.random() < 0.7 else float(rng.choice([2 * PI, -2 * PI, 2 * PI + 1e-9, 7.0, -7.0, 0.0, 10.0, 3 * PI, -4 * PI, 49.9]))
    n = int(rng.integers(1, 8))
    case = {
        "a": gen.taa(rng, 10.0).tolist(), "b": gen.taa(rng, 10.0).tolist(), "c": gen.taa(rng, 10.0).tolist(),
        "delta": float(rng.uniform(1e-3, 1.0)) if rng.random() < 0.9 else 1.0,
        "steps": int(rng.integers(2, 201)) if rng.random() < 0.8 else int(rng.choice([2, 3, 200])),
        "npts": int(rng.integers(1, 2001)) if rng.random() < 0.8 else int(rng.choice([1, 2, 3, 4, 2000])),
        "angles": [ang() for _ in range(int(rng.choice([2, 3, 4, 5, 7, 9, 12])))],
        "six": [float(rng.uniform(-100, 100)) for _ in range(3)] + [ang() for _ in range(3)],
        "ang": ang(),
        "S": gen.screw_axes(rng, n).tolist(), "theta": (lambda t: np.where((np.abs(t) > 0) & (np.abs(t) < 1e-5), 0.0, t))(rng.uniform(-PI, PI, n)).tolist(),      # not inside the exponential's cut-off band
        "Q": None, "Aq": None, "x0": None, "nx": int(rng.integers(1, 5)), "mq": int(rng.integers(1, 4)),
        "h": float(10 ** rng.uniform(-3, -1)),
    }
    nx, mq = case["nx"], case["mq"]
    case["Q"] = rng.normal(size=(mq, nx, nx)).tolist()
    case["Aq"] = rng.normal(size=(mq, nx)).tolist()
    case["x0"] = rng.normal(size=nx).tolist()
    return case


def congruent(x, y, scale=1.0):
    d = np.asarray(x, dtype=float) - np.asarray(y, dtype=float)
    r = np.abs((d + PI) % (2 * PI) - PI)
    return float(np.max(r)) if r.size else 0.0


def check_case(case, ctx, tm, fsr, mr):
    ta, tb, tc = (np.array(case[k], dtype=float) for k in "abc")
    A, B, C = se3.taa_to_T(ta), se3.taa_to_T(tb), se3.taa_to_T(tc)
    own_band = any(0.0 < np.linalg.norm(t[3:]) < tol.BAND for t in (ta, tb, tc))

    def mk(t):
        return tm(np.array(t, dtype=float))

    def cmp(clause, key, got, want, scale=1.0, band=False, base=1e-8):
        ctx.clause(clause)
        got = np.asarray(got, dtype=float)
        want = np.asarray(want, dtype=float)
        t = (tol.ABS5 if (band or own_band) else base) * max(1.0, scale)
        if got.shape != want.shape:
            ctx.violation(clause, key + "/shape", {"got": got.shape, "want": want.shape}, case)
            return False
        e = tol.maxabs(got - want) if got.size else 0.0
        ctx.err(clause, e / max(1.0, scale))
        if not (e <= t):
            ctx.violation(clause, key, {"err": e, "tol": t, "got": got.ravel()[:6], "want": want.ravel()[:6]}, case)
            return False
        return True

    def guard(clause, key, fn):
        try:
            r = fn()
            # a returned pose is one pose however it is read (matrix or six-vector)
            for x in (r if isinstance(r, (list, tuple)) else [r]):
                if hasattr(x, "gTM") and hasattr(x, "gTAA"):
                    sd = tol.tm_sides_differ(x)
                    if sd is not None and sd[0] > sd[1]:
                        ctx.clause(clause)
                        ctx.violation(clause, key + "/result_reads_differently", {"err": sd[0], "tol": sd[1]}, case)
                        return None
            return r
        except Exception as e:
            ctx.clause(clause)
            ctx.violation(clause, key + "/raises/" + type(e).__name__, {"exc": repr(e)[:300]}, case)
            return None

    pa, pb, pc = ta[:3], tb[:3], tc[:3]
    scp = 1.0 + max(np.linalg.norm(pa), np.linalg.norm(pb), np.linalg.norm(pc))

    # ---- mirror: frame = a (off-origin, rotated), point = b ---------------------------
    m = guard("mirror.local", "mirror", lambda: fsr.mirror(mk(ta), mk(tb)))
    if m is not None:
        Afr = mk(ta).gTM()
        loc = se3.inv(Afr) @ np.append(pb, 1.0)
        want = Afr @ np.array([loc[0], loc[1], -loc[2], 1.0])
        got = np.asarray(m.gTAA()).reshape(6)[:3]
        offo = "through_origin" if abs(Afr[:3, 2] @ Afr[:3, 3]) < 1e-9 else "off_origin"
        ctx.cls("mirror:" + offo)
        cmp("mirror.local", "mirror.local/" + offo, got, want[:3], scp * 2)
        m2 = guard("mirror.involution", "mirror.involution", lambda: fsr.mirror(mk(ta), fsr.mirror(mk(ta), mk(tb))))
        if m2 is not None:
            cmp("mirror.involution", "mirror.involution/" + offo, np.asarray(m2.gTAA()).reshape(6)[:3], pb, scp * 2)

    # ---- interpolated midpoint ------------------------------------------------------------
    Rrel = A[:3, :3].T @ B[:3, :3]
    arel = se3.rot_angle(Rrel)
    if arel <= PI - 1e-3:
        mid = guard("midpoint.pos", "midpoint", lambda: fsr.tmInterpMidpoint(mk(ta), mk(tb)))
        if mid is not None:
            M = mid.gTM()
            cmp("midpoint.pos", "midpoint.pos", M[:3, 3], (pa + pb) / 2, scp)
            bandm = 0.0 < arel < 2 * tol.BAND
            Rw = A[:3, :3] @ se3.exp3(se3.log3(Rrel) / 2)
            bandm = bandm or 0.0 < se3.rot_angle(Rw) < tol.BAND      # the result itself is rebuilt from a six-vector
            ok = cmp("midpoint.rot", "midpoint.rot", M[:3, :3], Rw, 1.0, bandm)
            if ok:
                h1 = se3.rot_angle(A[:3, :3].T @ M[:3, :3])
                h2 = se3.rot_angle(M[:3, :3].T @ B[:3, :3])
                cmp("midpoint.rot", "midpoint.half_angle", [h1, h2], [arel / 2, arel / 2], 1.0, bandm, base=1e-7)

    # ---- lookAt -------------------------------------------------------------------------------
    d = pb - pa
    nd = np.linalg.norm(d)
    if nd > 1e-6:
        zdir = d / nd
        off = math.acos(min(1.0, abs(zdir[2])))
        if off > 1e-3:
            la = guard("lookat", "lookat", lambda: fsr.lookAt(mk(ta), mk(tb)))
            if la is not None:
                L = la.gTM()
                cmp("lookat", "lookat.position", L[:3, 3], pa, scp)
                ctx.clause("lookat")
                Rl = L[:3, :3]
                if tol.maxabs(Rl.T @ Rl - np.eye(3)) > 1e-8 or abs(np.linalg.det(Rl) - 1) > 1e-8:
                    ctx.violation("lookat", "lookat.not_proper", {"det": np.linalg.det(Rl)}, case)
                cmp("lookat", "lookat.z_axis", Rl[:, 2], zdir, 1.0)
        else:
            ctx.cls("lookat_degenerate_skipped")
    # the target exactly above / below the eye (a function of the case, no random draw): the library handles this by nudging the
    # target sideways by 1e-5, so the local z can only be asked to point at the target to 3e-5 / distance - but it must still point
    # TOWARDS it (up for a target above, down for a target below), keep the position and be a proper rotation
    sgn = 1.0 if pc[0] >= 0 else -1.0
    dist = 0.1 + min(9.0, abs(float(pc[1])))
    tv = np.concatenate([pa + np.array([0.0, 0.0, sgn * dist]), tb[3:]])
    lv = guard("lookat.vertical", "lookat.vertical", lambda: fsr.lookAt(mk(ta), mk(tv)))
    if lv is not None:
        ctx.clause("lookat.vertical")
        ctx.cls("lookat_vertical:" + ("above" if sgn > 0 else "below"))
        Lv = lv.gTM()
        Rv = Lv[:3, :3]
        ez = float(np.linalg.norm(Rv[:, 2] - np.array([0.0, 0.0, sgn])))
        if (tol.maxabs(Lv[:3, 3] - pa) > 1e-8 * scp or tol.maxabs(Rv.T @ Rv - np.eye(3)) > 1e-8 or abs(np.linalg.det(Rv) - 1) > 1e-8
                or not (ez <= 3e-5 / dist + 1e-8)):
            ctx.violation("lookat.vertical", "lookat.vertical/" + ("above" if sgn > 0 else "below"),
                          {"z_axis": Rv[:, 2].tolist(), "z_err": ez, "dist": dist, "pos_err": tol.maxabs(Lv[:3, 3] - pa)}, case)

    # ---- plane through three points ------------------------------------------------------------
    nrm = np.cross(pb - pa, pc - pa)
    if np.linalg.norm(nrm) > 1e-6 * (1 + np.linalg.norm(pb - pa) * np.linalg.norm(pc - pa)):
        for form in ("tm", "vec"):
            args = [mk(t) for t in (ta, tb, tc)] if form == "tm" else [pa.copy(), pb.copy(), pc.copy()]
            pl = guard("plane", "plane/" + form, lambda: fsr.planeFromThreePoints(*args))
            if pl is not None:
                a_, b_, c_, d_ = [float(x) for x in pl]
                n_ = np.array([a_, b_, c_])
                res = [float(n_ @ p - d_) for p in (pa, pb, pc)]
                ctx.clause("plane")
                sc = max(1.0, np.linalg.norm(n_) * scp)
                if np.linalg.norm(n_) < 1e-12 or max(abs(r) for r in res) > 1e-8 * sc:
                    ctx.violation("plane", "plane.residual/" + form, {"res": res, "n": n_, "d": d_}, case)

    # ---- distance is a metric, arc distance is the norm of the relative pose ------------------
    def dist(x, y):
        return fsr.distance(mk(x), mk(y))
    ds = guard("distance.metric", "distance", lambda: [dist(ta, tb), dist(tb, ta), dist(ta, ta), dist(tb, tc), dist(ta, tc)])
    if ds is not None:
        dab, dba, daa, dbc, dac = [float(x) for x in ds]
        cmp("distance.metric", "distance.value", [dab, dbc, dac],
            [np.linalg.norm(pa - pb), np.linalg.norm(pb - pc), np.linalg.norm(pa - pc)], scp)
        ctx.clause("distance.metric")
        if not (dab == dba and daa == 0.0 and dab >= 0 and dac <= dab + dbc + 1e-8 * scp):
            ctx.violation("distance.metric", "distance.law", {"dab": dab, "dba": dba, "daa": daa, "dbc": dbc, "dac": dac}, case)
    ad = guard("arcdistance", "arcdistance", lambda: fsr.arcDistance(mk(ta), mk(tb)))
    if ad is not None:
        Trel = se3.inv(mk(ta).gTM()) @ mk(tb).gTM()
        want = math.sqrt(np.linalg.norm(Trel[:3, 3]) ** 2 + se3.rot_angle(Trel[:3, :3]) ** 2)
        cmp("arcdistance", "arcdistance", [float(np.asarray(ad).reshape(-1)[0])], [want], scp, 0.0 < se3.rot_angle(Trel[:3, :3]) < tol.BAND)
    # same-orientation pairs (the planner's common case): a pose against itself, against a copy shifted in its own frame, and against
    # the same rotation vector at another origin - the relative rotation is exactly the identity, the arc distance the shift
    A4 = mk(ta).gTM()
    for nm, other, want in (("itself", lambda: mk(ta), 0.0),
                            ("shifted_locally", lambda: mk(ta) @ mk(np.concatenate([pc, np.zeros(3)])), float(np.linalg.norm(pc))),
                            ("same_rotation_other_origin", lambda: mk(np.concatenate([pb, ta[3:]])), float(np.linalg.norm(pb - pa)))):
        ad2 = guard("arcdistance", "arcdistance.same_orientation", lambda: fsr.arcDistance(mk(ta), other()))
        if ad2 is not None:
            v = float(np.asarray(ad2).reshape(-1)[0])
            ctx.clause("arcdistance")
            if not (abs(v - want) <= 1e-8 * scp):        # NaN fails as well
                ctx.violation("arcdistance", "arcdistance.same_orientation/" + nm, {"got": v, "want": want}, case)
    dself = guard("distance.metric", "distance.same", lambda: float(fsr.distance(mk(ta), mk(ta) @ mk(np.concatenate([pc, np.zeros(3)])))))
    if dself is not None:
        cmp("distance.metric", "distance.shifted_locally", [dself], [float(np.linalg.norm(pc))], scp)

    # ---- gap closing -----------------------------------------------------------------------------
    delta = case["delta"]
    diff = tb - ta
    nrm6 = np.linalg.norm(diff)
    if nrm6 > 1e-9:
        g = guard("lineargap", "lineargap", lambda: fsr.closeLinearGap(mk(ta), mk(tb), delta))
        if g is not None:
            got = np.asarray(g.gTAA()).reshape(6)
            cmp("lineargap", "lineargap.step", got, ta + diff / nrm6 * delta, scp)
            cmp("lineargap", "lineargap.amount", [np.linalg.norm(got - ta)], [delta], 1.0)
        g = guard("arcgap", "arcgap", lambda: fsr.closeArcGap(mk(ta), mk(tb), delta))
        if g is not None:
            step = diff / nrm6 * delta
            Ao = mk(ta).gTM()
            Trel = se3.inv(Ao) @ g.gTM()
            bandg = 0.0 < np.linalg.norm(step[3:]) < tol.BAND
            amount = math.sqrt(np.linalg.norm(Trel[:3, 3]) ** 2 + se3.rot_angle(Trel[:3, :3]) ** 2)
            cmp("arcgap", "arcgap.amount", [amount], [delta], 1.0, bandg)
            cmp("arcgap", "arcgap.step", Trel, se3.taa_to_T(step), 1.0, bandg)
            if np.linalg.norm(ta[3:]) == 0 and np.linalg.norm(tb[3:]) == 0:
                cmp("arcgap", "arcgap.direction_unrotated", g.gTM()[:3, 3], pa + (pb - pa) / np.linalg.norm(pb - pa) * delta, scp)
    g = guard("lineargap", "lineargap.same", lambda: fsr.closeLinearGap(mk(ta), mk(ta), delta))
    if g is not None:
        cmp("lineargap", "lineargap.same", np.asarray(g.gTAA()).reshape(6), ta, scp)

    # ---- IKPath ------------------------------------------------------------------------------------
    steps = case["steps"]
    path = guard("ikpath", "ikpath", lambda: fsr.IKPath(mk(ta), mk(tb), steps))
    if path is not None:
        ctx.clause("ikpath")
        if len(path) != steps:
            ctx.violation("ikpath", "ikpath.count", {"len": len(path), "steps": steps}, case)
        else:
            got = np.array([np.asarray(p.gTAA()).reshape(6) for p in path])
            want = np.array([ta + (tb - ta) * i / (steps - 1) for i in range(steps)])
            cmp("ikpath", "ikpath.poses", got, want, scp)

    # ---- twist to goal ---------------------------------------------------------------------------------
    S_, E_ = mk(ta).gTM(), mk(tb).gTM()
    if se3.rot_angle(S_[:3, :3].T @ E_[:3, :3]) <= PI - 1e-3:
        V = guard("twist2goal", "twist2goal", lambda: fsr.twistToGoal(mk(ta), mk(tb)))
        if V is not None:
            V = np.asarray(V, dtype=float).reshape(-1)
            ctx.clause("twist2goal")
            if V.shape != (6,):
                ctx.violation("twist2goal", "twist2goal/shape", {"shape": V.shape}, case)
            else:
                X = se3.exp6(V)
                e1 = tol.maxabs(X @ S_ - E_)
                e2 = tol.maxabs(S_ @ X - E_)
                ctx.err("twist2goal", min(e1, e2))
                if min(e1, e2) > 1e-8 * scp * 4:
                    ctx.violation("twist2goal", "twist2goal.miss", {"err_left": e1, "err_right": e2}, case)

    # ---- Jacobians -------------------------------------------------------------------------------------
    S = np.array(case["S"], dtype=float)
    th = np.array(case["theta"], dtype=float)
    J = guard("chainjac", "chainjac", lambda: fsr.chainJacobian(S.copy(), th.copy()))
    if J is not None:
        cmp("chainjac", "chainjac", np.asarray(J), se3.jac_space(S, th), 1.0 + tol.maxabs(S))
    Q = np.array(case["Q"])
    Aq = np.array(case["Aq"])
    x0 = np.array(case["x0"])
    Qs = np.array([q + q.T for q in Q]) / 2
    f = lambda x: Aq @ x + np.array([x @ q @ x for q in Qs])
    Jn = guard("numjac", "numjac", lambda: fsr.numericalJacobian(f, x0.copy(), case["h"]))
    if Jn is not None:
        want = Aq + np.array([2 * q @ x0 for q in Qs])
        cmp("numjac", "numjac", np.asarray(Jn), want, 1.0 + tol.maxabs(want), base=1e-8 / case["h"] * 1e-2 + 1e-8)

    # ---- sphere samplers ---------------------------------------------------------------------------------
    n = case["npts"]
    P = guard("fibo", "fibo", lambda: fsr.fiboSphere(n))
    if P is not None:
        P = np.asarray(P, dtype=float)
        ctx.clause("fibo")
        if P.shape != (n, 3) or tol.maxabs(np.linalg.norm(P, axis=1) - 1) > 1e-8:
            ctx.violation("fibo", "fibo.not_unit", {"shape": P.shape}, case)
    P = guard("unitsphere", "unitsphere", lambda: fsr.unitSphere(n))
    if P is not None:
        P = np.asarray(P, dtype=float)
        ctx.clause("unitsphere")
        if P.ndim != 2 or P.shape[1] != 3 or P.shape[0] < 1 or tol.maxabs(np.linalg.norm(P, axis=1) - 1) > 1e-8:
            ctx.violation("unitsphere", "unitsphere.not_unit", {"shape": P.shape}, case)

    # ---- angle wrapping ------------------------------------------------------------------------------------
    x = case["ang"]
    for kind, v in (("pyfloat", float(x)), ("npfloat", np.float64(x))):
        r = guard("anglemod.scalar", "anglemod.scalar/" + kind, lambda: fsr.angleMod(v))
        if r is not None:
            ctx.clause("anglemod.scalar")
            e = congruent(float(r), x)
            if e > 1e-8 or abs(float(r)) > 2 * PI + 1e-9:
                ctx.violation("anglemod.scalar", "anglemod.scalar/" + kind, {"in": x, "out": float(r), "err": e}, case)
    arr = np.array(case["angles"], dtype=float)
    r = guard("anglemod.array", "anglemod.array", lambda: fsr.angleMod(arr.copy()))
    if r is not None:
        r = np.asarray(r, dtype=float)
        ctx.clause("anglemod.array")
        if r.shape != arr.shape or congruent(r, arr) > 1e-8 or np.max(np.abs(r)) > 2 * PI + 1e-9:
            ctx.violation("anglemod.array", "anglemod.array", {"in": arr, "out": r}, case)
    six = np.array(case["six"], dtype=float)
    for shp in ((6,), (6, 1)):
        r = guard("anglemod.six", "anglemod.six", lambda: fsr.angleMod(six.copy().reshape(shp)))
        if r is not None:
            r = np.asarray(r, dtype=float).reshape(-1)
            ctx.clause("anglemod.six")
            if r.shape != (6,) or not np.array_equal(r[:3], six[:3]) or congruent(r[3:], six[3:]) > 1e-8 or np.max(np.abs(r[3:])) > 2 * PI + 1e-9:
                ctx.violation("anglemod.six", "anglemod.six", {"in": six, "out": r}, case)
    r = guard("anglemod.mr", "anglemod.mr", lambda: mr.AngleMod(arr.copy()))
    if r is not None:
        r = np.asarray(r, dtype=float)
        ctx.clause("anglemod.mr")
        if r.shape != arr.shape or congruent(r, arr) > 1e-8 or np.max(np.abs(r)) > 2 * PI + 1e-9:
            ctx.violation("anglemod.mr", "anglemod.mr", {"in": arr, "out": r}, case)

    def tm_mod(via_fsr):
        t = tm(six.copy())
        if via_fsr:
            fsr.angleMod(t)
        else:
            t.angleMod()
        return t
    for via in (False, True):
        t = guard("anglemod.tm", "anglemod.tm", lambda: tm_mod(via))
        if t is not None:
            r = np.asarray(t.gTAA(), dtype=float).reshape(-1)
            ctx.clause("anglemod.tm")
            if not np.array_equal(r[:3], six[:3]) or congruent(r[3:], six[3:]) > 1e-8 or np.max(np.abs(r[3:])) > 2 * PI + 1e-9:
                ctx.violation("anglemod.tm", "anglemod.tm", {"in": six, "out": r}, case)
            else:
                ok, e = tol.close(t.gTM()[:3, :3], se3.exp3(r[3:]), tol.ABS5)
                if not ok:
                    ctx.violation("anglemod.tm", "anglemod.tm.matrix_stale", {"err": e}, case)


def _load():
    from ..worker import import_target
    import_target()
    from basic_robotics.general import tm, fsr
    from basic_robotics.modern_robotics_numba import mr
    return tm, fsr, mr


def run_shard(spec, ctx):
    tm, fsr, mr = _load()
    for _ in range(int(spec["n"])):
        case = gen_case(ctx.rng)
        ta, tb = np.array(case["a"]), np.array(case["b"])
        nt = bool(np.linalg.norm(ta[:3] - tb[:3]) > 1e-3 and np.linalg.norm(ta[3:] - tb[3:]) > 1e-3
                  and np.linalg.norm(ta[:3]) > 1e-3 and np.linalg.norm(ta[3:]) > 1e-3)
        ctx.case({"a": gen.quant(ta, 1e-6), "b": gen.quant(tb, 1e-6), "c": gen.quant(case["c"], 1e-6)}, nt)
        try:
            check_case(case, ctx, tm, fsr, mr)
        except Exception:
            import traceback
            ctx.violation("harness", "unexpected", {"exc": traceback.format_exc()[-800:]}, case)


def replay(case, ctx):
    tm, fsr, mr = _load()
    ctx.case(case, True)
    check_case(case, ctx, tm, fsr, mr)
