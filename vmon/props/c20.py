"""C20 - disp never fails, prints what it returns, shows every element."""
import contextlib
import io
import itertools
import math
import numpy as np

META = {
    "level": "exploration",
    "rule": ("objects: numeric arrays of every shape with extents 0..4 and 0..5 axes (float/int/bool; entries drawn "
             "from small, <9999, and special values nan/inf/+-1e300/>=9999), decimals 0..8, titles of even and odd "
             "length, table mode for everything and LaTeX mode for 2-D; scalars, strings, None, nested "
             "lists/tuples, tm, Wrench, lists of either.  Monitor: no exception, str returned, captured stdout == "
             "string + newline (empty with noprint); for arrays of <= 4 axes with all |x| < 9999 the numeric fields "
             "of the rendered rows are parsed back and compared, in row-major order, to the elements within half a "
             "unit of the last printed decimal.  Non-trivial: array has >= 2 elements or object is a container; "
             "distinct by (kind, shape, dtype, nd, title parity, mode, value hash)."),
    "assumptions": ["titles are letters only, so a title line can never parse as a data row",
                    "non-finite entries are only placed in plain numeric arrays (the statement's parenthesis)"],
}
REQUIRED_REACH = ['utilities/disp.py:disp']
REQUIRED_CLAUSES = ["total", "stdout", "elements", "elements_latex", "noprint"]

ROWCH = "║╔╚"
ENDCH = "║╗╝"


def parse_rows(s):
    """Data rows of the table rendering: list of lists of floats."""
    rows = []
    for line in s.split("\n"):
        pos = -1
        for i, ch in enumerate(line):
            if ch in ROWCH and i + 1 < len(line) and line[i + 1] == " ":
                pos = i
                break
        if pos < 0 or len(line) < pos + 4 or line[-1] not in ENDCH or line[-2] != " ":
            continue
        body = line[pos + 2:-2]
        if body.strip() == "":
            rows.append([])
            continue
        try:
            rows.append([float(x) for x in body.split(",")])
        except ValueError:
            continue
    return rows


def parse_latex(s):
    rows = []
    inside = False
    for line in s.split("\n"):
        if line.startswith("\\midrule"):
            inside = True
            continue
        if line.startswith("\\bottomrule"):
            break
        if inside:
            body = line[:-2] if line.endswith("\\\\") else line
            if body.strip() == "":
                rows.append([])
            else:
                rows.append([float(x) for x in body.split(" & ")])
    return rows


def plan(tier, seed):
    if tier == "quick":
        return [{"mode": "random", "n": 900, "timeout_s": 900} for _ in range(8)]
    sp = [{"mode": "allshapes", "part": i, "parts": 12, "timeout_s": 3600} for i in range(12)]
    sp += [{"mode": "random", "n": 60000, "timeout_s": 3600} for _ in range(4)]
    return sp


ALL_SHAPES = [()] + [s for k in range(1, 6) for s in itertools.product(range(5), repeat=k)]


def make_array(rng, shape, dtype, special):
    n = int(np.prod(shape)) if len(shape) else 1
    if dtype == "bool":
        a = rng.random(n) < 0.5
    elif dtype == "int":
        a = rng.integers(-9998, 9999, n) if rng.random() < 0.5 else rng.integers(-9, 10, n)
        a = a.astype(np.int64)
        if special and n:
            a[int(rng.integers(n))] = int(rng.choice([9999, -123456, 10 ** 12]))
    else:
        sc = float(rng.choice([1.0, 1.0, 100.0, 9998.0]))
        a = rng.uniform(-1, 1, n) * sc
        k = rng.random(n)
        a = np.where(k < 0.1, np.round(a, 1), a)          # ties / short decimals
        a = np.where(k > 0.95, 0.0, a)
        if special and n:
            for _ in range(int(rng.integers(1, 4))):
                a[int(rng.integers(n))] = float(rng.choice([np.nan, np.inf, -np.inf, 1e300, -1e300, 9999.0, 123456.789, 1e-300]))
    return a.reshape(shape)


def run_disp(disp, obj, ctx, desc, **kw):
    buf = io.StringIO()
    ctx.clause("total")
    try:
        with contextlib.redirect_stdout(buf):
            ret = disp(obj, **kw)
    except BaseException as e:
        ctx.violation("total", "raises/%s/%s" % (desc["kind"], type(e).__name__), {"exc": repr(e)[:300]}, desc)
        return None
    if not isinstance(ret, str):
        ctx.violation("total", "not_str/%s" % desc["kind"], {"type": str(type(ret))}, desc)
        return None
    out = buf.getvalue()
    if kw.get("noprint"):
        ctx.clause("noprint")
        if out != "":
            ctx.violation("noprint", "noprint_printed/%s" % desc["kind"], {"stdout": out[:200]}, desc)
    else:
        ctx.clause("stdout")
        if out != ret + "\n":
            ctx.violation("stdout", "stdout_differs/%s" % desc["kind"], {"stdout": out[:200], "ret": ret[:200]}, desc)
    return ret


def check_array(disp, a, nd, title, mode, ctx, noprint=False):
    desc = {"kind": "array", "shape": list(a.shape), "dtype": str(a.dtype), "nd": nd, "title": title, "mode": mode,
            "values": a.ravel().tolist()[:64]}
    ctx.case({"k": "array", "shape": list(a.shape), "dtype": str(a.dtype), "nd": nd, "tp": len(title) % 2, "mode": mode,
              "v": hash(a.tobytes())}, a.size >= 2, sample=desc if a.size >= 2 else None)
    kw = {"title": title, "nd": nd, "mode": mode}
    if noprint:
        kw["noprint"] = True
    ret = run_disp(disp, a, ctx, desc, **kw)
    if ret is None:
        return
    if a.ndim > 4 or a.ndim == 0:
        return
    af = a.astype(float)
    if a.size and not (np.all(np.isfinite(af)) and np.all(np.abs(af) < 9999)):
        ctx.cls("array_with_special_values")
        return
    if mode == 0:
        ctx.clause("elements")
        rows = parse_rows(ret)
        flat = [x for r in rows for x in r]
        exp_rows = int(np.prod(a.shape[:-1])) if a.ndim >= 2 else 1
        ncol = a.shape[-1]
        okrows = len(rows) == exp_rows and all(len(r) == ncol for r in rows)
        want = af.ravel()
        half = 0.5 * 10.0 ** (-nd) * (1 + 1e-9) + 1e-12
        ok = okrows and len(flat) == want.size and all(abs(f - w) <= half for f, w in zip(flat, want))
        if not ok:
            key = "elements/" + ("rows" if not okrows else "values") + "/dims%d" % a.ndim
            ctx.violation("elements", key, {"parsed": flat[:40], "rows": len(rows), "expected_rows": exp_rows,
                                            "rendered": ret[:600]}, desc)
    elif a.ndim == 2:
        ctx.clause("elements_latex")
        try:
            rows = parse_latex(ret)
        except ValueError as e:
            ctx.violation("elements_latex", "latex/unparsable", {"exc": repr(e), "rendered": ret[:600]}, desc)
            return
        want = af
        half = 0.5 * 10.0 ** (-nd) * (1 + 1e-9) + 1e-12
        ok = len(rows) == a.shape[0] and all(len(r) == a.shape[1] for r in rows) and \
            all(abs(rows[i][j] - want[i, j]) <= half for i in range(a.shape[0]) for j in range(a.shape[1]))
        if a.shape[1] == 0:
            ok = all(len(r) == 0 for r in rows)
        if not ok:
            ctx.violation("elements_latex", "latex/values", {"rows": rows[:6], "rendered": ret[:600]}, desc)


def rand_title(rng):
    n = int(rng.integers(1, 12))
    t = "".join(rng.choice(list("ABCDEFGHIJKLMNOPQRSTUVWXYZabcdefghijklmnopqrstuvwxyz"), n))
    return "MATRIX" if rng.random() < 0.3 else t


def misc_objects(rng, tm, Wrench, Screw):
    def T():
        return tm(np.concatenate([rng.uniform(-10, 10, 3), rng.uniform(-1, 1, 3)]))

    def W():
        return Wrench(rng.uniform(-50, 50, 6).reshape((6, 1)))
    objs = [
        ("scalar", 3), ("scalar", -2.5), ("scalar", float("nan")), ("scalar", float("inf")), ("scalar", 1e300),
        ("scalar", np.float64(1.25)), ("scalar", np.int64(7)), ("scalar", True), ("scalar", 3 + 4j),
        ("string", ""), ("string", "hello"), ("string", "multi\nline ║ ╔"), ("none", None),
        ("list", []), ("list", [1, 2, 3]), ("list", [1.5, [2, [3, 4]], (5, 6)]), ("tuple", (1, 2)), ("tuple", ()),
        ("list", [[1, 2], [3, 4]]), ("list", [np.eye(2), np.zeros((2, 3))]), ("list", [None, "a", 2]),
        ("list", [(1, 2), (3, [4, 5])]), ("tuple", ((1, 2), [3])), ("list", [np.arange(3), 4.0]),
        ("tm", T()), ("tm", tm()), ("wrench", W()), ("wrench", Wrench()), ("screw", Screw(rng.uniform(-1, 1, 6).reshape((6, 1)))),
        ("tmlist", [T()]), ("tmlist", [T(), T()]), ("tmlist", [T() for _ in range(int(rng.integers(1, 6)))]),
        ("wrenchlist", [W()]), ("wrenchlist", [W(), W(), W()]), ("mixedlist", [T(), W()]), ("mixedlist", [T(), 3]),
        ("tmlist_big", [tm([12345.678, -99999.0, 1e7, 0.1, 0.2, 0.3]), T()]),
        ("dict", {"a": 1}), ("set", {1, 2}), ("range", range(3)), ("bytes", b"xy"),
    ]
    return objs


def run_shard(spec, ctx):
    from ..worker import import_target
    import_target()
    from basic_robotics.utilities.disp import disp
    from basic_robotics.general import tm, Wrench, Screw
    rng = ctx.rng
    # --- non-array kinds (every shard; cheap) ---
    for kind, obj in misc_objects(rng, tm, Wrench, Screw):
        for nd in (3, int(rng.integers(0, 9))):
            for noprint in (False, True):
                title = rand_title(rng)
                desc = {"kind": kind, "repr": repr(obj)[:200], "nd": nd, "title": title, "noprint": noprint}
                ctx.case({"k": kind, "r": repr(obj)[:200], "nd": nd, "tp": len(title) % 2, "np": noprint},
                         kind not in ("scalar", "string", "none"))
                ctx.cls("kind:" + kind)
                kw = {"title": title, "nd": nd}
                if noprint:
                    kw["noprint"] = True
                ret = run_disp(disp, obj, ctx, desc, **kw)
                if ret is not None and kind in ("tmlist", "wrenchlist") and nd >= 1:
                    # every element of a list of transforms/wrenches appears (column i = object i)
                    ctx.clause("tflist_elements")
                    rows = []
                    for line in ret.split("\n"):
                        if line.startswith("║") and line.endswith(" ║") and "║ " in line[1:]:
                            body = line[line.index("║ ", 1) + 2:-2]
                            try:
                                rows.append([float(x) for x in body.split(",")])
                            except ValueError:
                                pass
                    want = np.array([[o[j] for o in obj] for j in range(6)], dtype=float)
                    half = 0.5 * 10.0 ** (-nd) * (1 + 1e-9) + 1e-12
                    if not (len(rows) == 6 and all(len(r) == len(obj) for r in rows)
                            and np.all(np.abs(np.array(rows) - want) <= half)):
                        ctx.violation("tflist_elements", "tflist/values", {"rows": rows, "rendered": ret[:600]}, desc)
    # --- arrays ---
    if spec["mode"] == "allshapes":
        shapes = ALL_SHAPES[spec["part"]::spec["parts"]]
        for shape in shapes:
            for dtype in ("float", "int", "bool"):
                for nd in range(9):
                    a = make_array(rng, shape, dtype, special=(rng.random() < 0.15 and len(shape) > 0))
                    title = rand_title(rng)
                    check_array(disp, a, nd, title, 0, ctx, noprint=rng.random() < 0.2)
                    if len(shape) == 2 and dtype != "bool":
                        check_array(disp, a, nd, title, 1, ctx, noprint=rng.random() < 0.3)
            ctx.cls("dims:%d" % len(shape))
        ctx.bump("allshapes", "parts_done", 1)
        return
    for _ in range(int(spec["n"])):
        nd_axes = int(rng.choice([0, 1, 1, 2, 2, 2, 3, 3, 4, 4, 5]))
        shape = tuple(int(x) for x in rng.integers(0, 5, nd_axes))
        if rng.random() < 0.7:
            shape = tuple(max(1, s) for s in shape)
        dtype = str(rng.choice(["float", "float", "int", "bool"]))
        nd = int(rng.integers(0, 9))
        a = make_array(rng, shape, dtype, special=(rng.random() < 0.15 and len(shape) > 0))
        title = rand_title(rng)
        ctx.cls("dims:%d" % len(shape))
        ctx.cls("dtype:" + dtype)
        check_array(disp, a, nd, title, 0, ctx, noprint=rng.random() < 0.2)
        if len(shape) == 2 and dtype != "bool" and rng.random() < 0.7:
            check_array(disp, a, nd, title, 1, ctx, noprint=rng.random() < 0.3)


def finalize(m, tier, results):
    if tier == "thorough":
        done = m["extra"].get("allshapes", {}).get("parts_done", 0)
        m["extra"]["all_shapes_enumerated"] = bool(done == 12)
        if done != 12:
            m["inconclusive"].append("only %d of 12 shape partitions completed" % done)


def replay(case, ctx):
    from ..worker import import_target
    import_target()
    from basic_robotics.utilities.disp import disp
    if case.get("kind") != "array":
        ctx.inconc("replay of non-array kinds re-runs the shard instead: use the seed")
        return
    dt = {"float64": float, "int64": np.int64, "bool": bool}[case["dtype"]]
    a = np.array(case["values"], dtype=dt).reshape(case["shape"])
    check_array(disp, a, case["nd"], case["title"], case["mode"], ctx)
