"""C12 - wrenches/screws change frame as a group action and add as vectors."""
import math
import numpy as np

from .. import gen, tol
from ..oracle import se3

PI = math.pi

META = {
    "level": "exploration",
    "rule": ("seeded cases: frames A, B, C (|p| <= 10, rotation angle <= pi-1e-3 from the C01 angle/axis classes, pure "
             "translations and pure rotations included), 6-vectors, forces and application points of magnitude <= 100, "
             "scalars k != 0 and s given as Python int/float and NumPy float64/int64, second operands given as "
             "object / 6-array / 6x1 array / scalar.  Each case evaluates every clause for Screw and for Wrench with "
             "an oracle that uses its own adjoint of the frames' published matrices.  Non-trivial: A and B differ in "
             "both rotation and translation; distinct by quantised values + operand kinds."),
    "assumptions": ["tolerance 1e-8 relative to max(1, largest magnitude involved); when two frames differ by a rotation in "
                    "(0, 2e-6) rad (the library's cut-off band) the tolerance is 5e-6 relative",
                    "frames closer than the library's own 1e-8 equality tolerance are treated as equal, as it does",
                    "frame/position metadata objects are not compared beyond the recorded frame's pose"],
}
REQUIRED_REACH = ['general/faser_screw.py:Screw.changeFrame', 'general/faser_wrench.py:Wrench.changeFrame', 'general/faser_wrench.py:Wrench.__init__', 'general/faser_screw.py:Screw.__add__', 'general/faser_screw.py:Screw.__sub__']
REQUIRED_CLAUSES = ["screw.aba", "screw.abc", "screw.frame", "wrench.aba", "wrench.abc", "wrench.frame", "pairing", "moment.pxf",
                    "moment.zero_at_point", "mixed.add", "mixed.sub", "vs.addsub", "vs.a-s", "vs.s-a", "vs.kdiv"]


def plan(tier, seed):
    if tier == "quick":
        return [{"n": 1500, "timeout_s": 1800} for _ in range(16)]
    return [{"n": 40000, "timeout_s": 7200} for _ in range(16)]


def gen_frame(rng):
    r = rng.random()
    t = gen.taa(rng, 10.0)
    if r < 0.1:
        t[3:] = 0
    elif r < 0.2:
        t[:3] = 0
    return t


def gen_case(rng):
    sk = gen.pick(rng, ["pyfloat", "pyint", "npfloat", "npint", "arr6", "arr6x1"])
    kk = gen.pick(rng, ["pyfloat", "pyint", "npfloat", "npint"])
    bk = gen.pick(rng, ["obj", "obj", "arr6", "arr6x1", "pyfloat"])
    k = float(rng.choice([-3, -1, 2, 5, 7])) if kk in ("pyint", "npint") else float(rng.uniform(0.1, 10) * rng.choice([-1, 1]))
    if sk in ("arr6", "arr6x1"):
        s = (rng.normal(size=6) * 10).tolist()
    elif sk in ("pyint", "npint"):
        s = float(rng.integers(-9, 10))
    else:
        s = float(rng.uniform(-50, 50))
    return {"A": gen_frame(rng).tolist(), "B": gen_frame(rng).tolist(), "C": gen_frame(rng).tolist(),
            "d1": (rng.normal(size=6) * rng.choice([1, 10, 100])).tolist(), "d2": (rng.normal(size=6) * rng.choice([1, 10])).tolist(),
            "f": (rng.normal(size=3) * rng.choice([1, 100])).tolist(), "p": gen.vec3(rng, 10.0).tolist(),
            "wp": gen.rotvec(rng, gen.ANGLE_SAFE).tolist(),
            "s": s, "sk": sk, "k": k, "kk": kk, "bk": bk}


def scalar_of(kind, x):
    if kind == "pyfloat":
        return float(x)
    if kind == "pyint":
        return int(x)
    if kind == "npfloat":
        return np.float64(x)
    if kind == "npint":
        return np.int64(x)
    if kind == "arr6":
        return np.array(x, dtype=float)
    if kind == "arr6x1":
        return np.array(x, dtype=float).reshape((6, 1))
    raise KeyError(kind)


def val(x):
    if hasattr(x, "getData"):
        return np.asarray(x.getData(), dtype=float).reshape(-1)
    return np.asarray(x, dtype=float).reshape(-1) if np.asarray(x).size == 6 else np.asarray(x, dtype=float)


def check_case(case, ctx, tm, Screw, Wrench):
    A, B, C = (tm(np.array(case[k], dtype=float)) for k in "ABC")
    TA, TB, TC = A.gTM(), B.gTM(), C.gTM()
    d1 = np.array(case["d1"], dtype=float)
    d2 = np.array(case["d2"], dtype=float)
    rel = [se3.rot_angle(X[:3, :3].T @ Y[:3, :3]) for X, Y in ((TA, TB), (TB, TC), (TA, TC))]
    rel += [se3.rot_angle(X[:3, :3]) for X in (TA, TB, TC)] + [float(np.linalg.norm(case[k][3:])) for k in "ABC"]
    band = any(0.0 < a < tol.BAND for a in rel)
    base = tol.ABS5 if band else 1e-8
    if band:
        ctx.cls("band")

    def eqtm(x, y):
        return bool(np.allclose(np.asarray(x.gTAA()), np.asarray(y.gTAA()), rtol=0, atol=1e-8))

    def cmp(clause, key, got, want, scale, b=None):
        ctx.clause(clause)
        got = np.asarray(got, dtype=float)
        want = np.asarray(want, dtype=float)
        t = (base if b is None else b) * max(1.0, scale)
        if got.shape != want.shape:
            ctx.violation(clause, key + "/shape", {"got": got.shape, "want": want.shape}, case)
            return
        e = tol.maxabs(got - want) if got.size else 0.0
        ctx.err(clause, e / max(1.0, scale))
        if not (e <= t):
            ctx.violation(clause, key, {"err": e, "tol": t, "got": got.ravel()[:6], "want": want.ravel()[:6]}, case)

    def guard(clause, key, fn):
        try:
            return fn()
        except Exception as e:
            ctx.clause(clause)
            ctx.violation(clause, key + "/raises/" + type(e).__name__, {"exc": repr(e)[:300]}, case)
            return None

    def lever(X, Y):
        return 1.0 + np.linalg.norm((se3.inv(X) @ Y)[:3, 3])

    for cname, mk, adj in (("screw", lambda d, F: Screw(d.reshape((6, 1)).copy(), F.copy()), "twist"),
                           ("wrench", lambda d, F: Wrench(d.reshape((6, 1)).copy(), None, F.copy()), "wrench")):
        def xform(d, X, Y):
            """coordinates of the object given in frame X, re-expressed in frame Y (oracle)."""
            if adj == "twist":
                return se3.Ad(se3.inv(Y) @ X) @ d
            return se3.Ad(se3.inv(X) @ Y).T @ d
        sc = tol.maxabs(d1) * lever(TA, TB) * lever(TB, TC)
        # A -> B -> A
        o = guard(cname + ".aba", cname + ".aba", lambda: mk(d1, A).changeFrame(B).changeFrame(A))
        if o is not None:
            cmp(cname + ".aba", cname + ".aba", val(o), d1, sc)
        # A -> B (value and recorded frame)
        o = guard(cname + ".frame", cname + ".frame", lambda: mk(d1, A).changeFrame(B))
        if o is not None:
            wv = xform(d1, TA, TB)
            if eqtm(A, B) and tol.maxabs(val(o) - d1) < tol.maxabs(val(o) - wv):
                wv = d1          # frames that coincide to 1e-8: leaving the object as it is and re-expressing it are both right
            cmp(cname + ".frame", cname + ".ab.value", val(o), wv, sc)
            ctx.clause(cname + ".frame")
            want = TB
            if eqtm(A, B) and tol.maxabs(o.frame_applied.gTM() - TA) < tol.maxabs(o.frame_applied.gTM() - TB):
                want = TA
            if tol.maxabs(o.frame_applied.gTM() - want) > 1e-8 * max(1.0, tol.maxabs(want)):
                ctx.violation(cname + ".frame", cname + ".frame_not_recorded", {"frame": o.frame_applied.gTAA().ravel()}, case)
        # A -> B -> C == A -> C
        o1 = guard(cname + ".abc", cname + ".abc", lambda: mk(d1, A).changeFrame(B).changeFrame(C))
        o2 = guard(cname + ".abc", cname + ".abc", lambda: mk(d1, A).changeFrame(C))
        if o1 is not None and o2 is not None:
            cmp(cname + ".abc", cname + ".abc", val(o1), val(o2), sc)
            if not eqtm(A, C) and not eqtm(A, B) and not eqtm(B, C):
                cmp(cname + ".abc", cname + ".ac.value", val(o2), xform(d1, TA, TC), sc)
        # explicit old_frame argument
        o = guard(cname + ".frame", cname + ".oldframe_arg", lambda: mk(d1, A).changeFrame(C, B))
        if o is not None and not eqtm(B, C):
            cmp(cname + ".frame", cname + ".oldframe_arg", val(o), xform(d1, TB, TC), sc)
        # mixed-frame + and -
        for opn, f in (("add", lambda x, y: x + y), ("sub", lambda x, y: x - y)):
            o = guard("mixed." + opn, cname + ".mixed." + opn, lambda: f(mk(d1, A), mk(d2, B)))
            if o is not None:
                d2A = xform(d2, TB, TA)
                want = d1 + d2A if opn == "add" else d1 - d2A
                if eqtm(A, B):
                    alt = d1 + d2 if opn == "add" else d1 - d2
                    if tol.maxabs(val(o) - alt) < tol.maxabs(val(o) - want):
                        want = alt
                cmp("mixed." + opn, cname + ".mixed." + opn, val(o), want, (tol.maxabs(d1) + tol.maxabs(d2) * lever(TA, TB)))
                if hasattr(o, "frame_applied") and tol.maxabs(o.frame_applied.gTM() - TA) > 1e-8 * max(1.0, tol.maxabs(TA)):
                    ctx.violation("mixed." + opn, cname + ".mixed.frame", {}, case)
        # vector-space laws
        a = mk(d1, A)
        bk = case["bk"]
        if bk == "obj":
            b = mk(d2, B)
        elif bk == "pyfloat":
            b = float(d2[0])
        else:
            b = scalar_of(bk, d2)
        scv = tol.maxabs(d1) + tol.maxabs(d2) * lever(TA, TB) + abs(float(np.max(np.abs(np.asarray(case["s"])))))
        o = guard("vs.addsub", cname + ".addsub/" + bk, lambda: (a + b) - b)
        if o is not None:
            cmp("vs.addsub", cname + ".addsub/" + bk, val(o), d1, scv)
        s = scalar_of(case["sk"], case["s"])
        sneg = scalar_of(case["sk"], (-np.asarray(case["s"])).tolist() if isinstance(case["s"], list) else -case["s"])
        o1 = guard("vs.a-s", cname + ".a-s/" + case["sk"], lambda: a - s)
        o2 = guard("vs.a-s", cname + ".a-s/" + case["sk"], lambda: a + sneg)
        if o1 is not None and o2 is not None:
            cmp("vs.a-s", cname + ".a-s/" + case["sk"], val(o1), val(o2), scv)
            cmp("vs.a-s", cname + ".a-s.value/" + case["sk"], val(o1), d1 - np.asarray(case["s"], dtype=float).reshape(-1), scv)
        o3 = guard("vs.s-a", cname + ".s-a/" + case["sk"], lambda: s - a)
        if o3 is not None and o1 is not None:
            cmp("vs.s-a", cname + ".s-a/" + case["sk"], val(o3), -val(o1), scv)
        k = scalar_of(case["kk"], case["k"])
        o = guard("vs.kdiv", cname + ".kdiv/" + case["kk"], lambda: (k * a) / k)
        if o is not None:
            cmp("vs.kdiv", cname + ".kdiv/" + case["kk"], val(o), d1, tol.maxabs(d1) * max(1.0, abs(case["k"])))
        o = guard("vs.kdiv", cname + ".div/" + case["kk"], lambda: a / k)
        if o is not None:
            cmp("vs.kdiv", cname + ".div/" + case["kk"], val(o), d1 / float(case["k"]), tol.maxabs(d1) / min(1.0, abs(case["k"])))
        o = guard("vs.kdiv", cname + ".mul/" + case["kk"], lambda: a * k)
        if o is not None:
            cmp("vs.kdiv", cname + ".mul/" + case["kk"], val(o), d1 * float(case["k"]), tol.maxabs(d1) * max(1.0, abs(case["k"])))
        o = guard("vs.kdiv", cname + ".kdiv_r/" + case["kk"], lambda: (a * k) / k)
        if o is not None:
            cmp("vs.kdiv", cname + ".kdiv_r/" + case["kk"], val(o), d1, tol.maxabs(d1) * max(1.0, abs(case["k"])))

    # pairing  wrench . twist  invariant
    def pairing():
        W = Wrench(d1.reshape((6, 1)).copy(), None, A.copy())
        V = Screw(d2.reshape((6, 1)).copy(), A.copy())
        p0 = float(val(W) @ val(V))
        W.changeFrame(B)
        V.changeFrame(B)
        return p0, float(val(W) @ val(V))
    o = guard("pairing", "pairing", pairing)
    if o is not None:
        L = lever(TA, TB)
        cmp("pairing", "pairing", [o[1]], [o[0]], tol.maxabs(d1) * tol.maxabs(d2) * L * L * 6)
        cmp("pairing", "pairing.value", [o[0]], [float(d1 @ d2)], tol.maxabs(d1) * tol.maxabs(d2) * 6)

    # force at a point
    f = np.array(case["f"], dtype=float)
    p = np.array(case["p"], dtype=float)
    def force_wrench():
        return Wrench(f.copy(), tm([float(x) for x in p] + [0.0, 0.0, 0.0]), A.copy())
    W = guard("moment.pxf", "moment.pxf", force_wrench)
    if W is not None:
        scf = tol.maxabs(f) * (1.0 + np.linalg.norm(p))
        cmp("moment.pxf", "moment.pxf", np.asarray(W.getMoment()).reshape(-1), np.cross(p, f), scf)
        cmp("moment.pxf", "force", np.asarray(W.getForce()).reshape(-1), f, scf)
        # the frame located at the point of application (arbitrary orientation), expressed in world coordinates
        P = tm(TA @ se3.rp(se3.exp3(case["wp"]), p))
        o = guard("moment.zero_at_point", "moment.zero_at_point", lambda: force_wrench().changeFrame(P))
        if o is not None and not eqtm(A, P):
            TP = P.gTM()
            bandP = band or any(0.0 < x < tol.BAND for x in (np.linalg.norm(case["wp"]), se3.rot_angle(TP[:3, :3]),
                                                               se3.rot_angle(TA[:3, :3].T @ TP[:3, :3])))
            bP = tol.ABS5 if bandP else 1e-8
            cmp("moment.zero_at_point", "moment.zero_at_point", np.asarray(o.getMoment()).reshape(-1), np.zeros(3), scf, bP)
            cmp("moment.zero_at_point", "force_rotated", np.asarray(o.getForce()).reshape(-1),
                TP[:3, :3].T @ TA[:3, :3] @ f, scf, bP)


def _load():
    from ..worker import import_target
    import_target()
    from basic_robotics.general import tm, Screw, Wrench
    return tm, Screw, Wrench


def run_shard(spec, ctx):
    tm, Screw, Wrench = _load()
    for _ in range(int(spec["n"])):
        case = gen_case(ctx.rng)
        A, B = np.array(case["A"]), np.array(case["B"])
        nt = bool(np.linalg.norm(A[:3] - B[:3]) > 1e-3 and np.linalg.norm(A[3:] - B[3:]) > 1e-3)
        ctx.case({"A": gen.quant(A, 1e-6), "B": gen.quant(B, 1e-6), "d1": gen.quant(case["d1"], 1e-6), "sk": case["sk"],
                  "kk": case["kk"], "bk": case["bk"]}, nt, sample=case)
        ctx.cls("s:" + case["sk"])
        ctx.cls("k:" + case["kk"])
        ctx.cls("b:" + case["bk"])
        try:
            check_case(case, ctx, tm, Screw, Wrench)
        except Exception as e:
            import traceback
            ctx.violation("harness", "unexpected/" + type(e).__name__, {"exc": traceback.format_exc()[-600:]}, case)


def replay(case, ctx):
    tm, Screw, Wrench = _load()
    ctx.case(case, True)
    check_case(case, ctx, tm, Screw, Wrench)
