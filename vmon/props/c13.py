"""C13 - loading a URDF preserves the kinematics the file describes."""
import math
import os
import shutil
import tempfile
import numpy as np

from .. import armlib, gen, tol
from ..common import VERIF
from ..oracle import se3, urdf_sem

PI = math.pi

META = {
    "level": "exploration",
    "rule": ("the five bundled URDF files plus generated single-chain URDFs: 1..8 revolute/continuous joints, 0..4 fixed joints "
             "in any position (before, between, after), origins with arbitrary xyz and rpy where each of <origin>, xyz, rpy and "
             "<axis> is omitted independently, coordinate-aligned and generic unit axes, with/without a 'world' root link, "
             "with/without inertial data, shuffled element order, a top-level <material>.  For 20 joint vectors inside the "
             "declared limits the loaded arm's FK is compared (1e-6) with the file's own semantics computed by an independent "
             "parser (prod origin_j . Rot(axis_j, theta_j), fixed-axis rpy); num_dof, joint order, names and written limits are "
             "compared exactly.  Non-trivial: at least one omitted optional element or one fixed joint, and >= 2 moving joints; "
             "distinct by the XML text hash."),
    "assumptions": ["oracle parser vmon/oracle/urdf_sem.py agrees with the loader on the five bundled files to 7e-9",
                    "limits are asserted only where the file writes lower/upper; continuous joints are sampled in [-pi, pi]",
                    "inertial blocks, when present, always carry their <origin> (its optionality is not among the listed ones)"],
}
REQUIRED_REACH = ['kinematics/arm_model.py:loadArmFromURDF', 'kinematics/arm_model.py:Arm.FK']
REQUIRED_CLAUSES = ["loads", "dof_names_limits", "fk", "bundled.fk"]
REQUIRED_CLASSES = ["limit:zero_bound", "limit:excludes_zero", "limit:integer_or_exponent", "omit:origin", "omit:xyz", "omit:rpy", "omit:axis", "fixed:before", "fixed:between", "fixed:after", "world:yes", "inertial:yes", "path:rewritten_between_loads"]


def plan(tier, seed):
    if tier == "quick":
        return [{"n": 50, "timeout_s": 1800} for _ in range(16)]
    return [{"n": 10000, "timeout_s": 14400} for _ in range(16)]


def fmt(v):
    return " ".join(repr(float(x)) for x in v)


def gen_urdf(rng):
    """Returns (xml_text, meta). meta carries the classes hit."""
    nmov = int(rng.integers(1, 9))
    nfix = int(rng.integers(0, 5))
    kinds = ["m"] * nmov + ["f"] * nfix
    rng.shuffle(kinds)
    world = bool(rng.random() < 0.4)
    inertial = bool(rng.random() < 0.5)
    classes = set()
    first_m = kinds.index("m")
    last_m = len(kinds) - 1 - kinds[::-1].index("m")
    for i, k in enumerate(kinds):
        if k == "f":
            classes.add("fixed:before" if i < first_m else "fixed:after" if i > last_m else "fixed:between")
    classes.add("world:yes" if world else "world:no")
    classes.add("inertial:yes" if inertial else "inertial:no")
    links = (["world"] if world else ["base_link"]) + ["link_%d" % i for i in range(len(kinds))]
    elems = []
    for li, name in enumerate(links):
        body = ""
        if inertial and name != "world":
            body = ('    <inertial>\n      <origin xyz="%s" rpy="0 0 0"/>\n      <mass value="%r"/>\n'
                    '      <inertia ixx="0.1" ixy="0" ixz="0" iyy="0.2" iyz="0" izz="0.3"/>\n    </inertial>\n'
                    % (fmt(rng.uniform(-0.1, 0.1, 3)), float(rng.uniform(0.1, 5))))
        elems.append('  <link name="%s">\n%s  </link>\n' % (name, body))
    mi = 0
    for i, k in enumerate(kinds):
        jt = "fixed" if k == "f" else ("continuous" if rng.random() < 0.3 else "revolute")
        name = ("fix_%d" % i) if k == "f" else ("joint_%s%d" % (gen.pick(rng, ["a", "b", "c"]), mi))
        parts = ['    <parent link="%s"/>\n' % links[i], '    <child link="%s"/>\n' % links[i + 1]]
        r = rng.random()
        xyz = rng.uniform(-1, 1, 3) * (rng.random(3) < 0.8)
        rpy = rng.uniform(-PI, PI, 3) * (rng.random(3) < 0.7)
        rpy = np.where((np.abs(rpy) > 0) & (np.abs(rpy) < 1e-5), 0.0, rpy)      # elementary rotations inside the exponential's cut-off band are not generated
        if rng.random() < 0.2:
            rpy = np.array([gen.pick(rng, [0.0, PI / 2, -PI / 2, PI, 1.570796325]) for _ in range(3)])
        if r < 0.15:
            classes.add("omit:origin")
        elif r < 0.3:
            classes.add("omit:xyz")
            parts.append('    <origin rpy="%s"/>\n' % fmt(rpy))
        elif r < 0.45:
            classes.add("omit:rpy")
            parts.append('    <origin xyz="%s"/>\n' % fmt(xyz))
        else:
            parts.append('    <origin xyz="%s" rpy="%s"/>\n' % (fmt(xyz), fmt(rpy)))
        if k == "m":
            if rng.random() < 0.2:
                classes.add("omit:axis")
            else:
                ax = gen.axis(rng, gen.pick(rng, gen.AXIS_CLASSES))
                parts.append('    <axis xyz="%s"/>\n' % fmt(ax))
            if jt == "revolute":
                lo = -float(rng.uniform(0.3, 2 * PI))
                hi = float(rng.uniform(0.3, 2 * PI))
                slo, shi = repr(lo), repr(hi)
                r2 = rng.random()
                if r2 < 0.15:           # one-sided ranges: a bound that is exactly zero, in the spellings files use
                    slo = gen.pick(rng, ["0", "0.0", "-0.0", "0e0"])
                    classes.add("limit:zero_bound")
                elif r2 < 0.3:
                    shi = gen.pick(rng, ["0", "0.0", "0.", "+0"])
                    classes.add("limit:zero_bound")
                elif r2 < 0.4:          # range that excludes zero
                    a, b = sorted(float(x) for x in rng.uniform(0.1, 3.0, 2))
                    sgn = float(rng.choice([-1.0, 1.0]))
                    lo2, hi2 = (a, b + 0.3) if sgn > 0 else (-(b + 0.3), -a)
                    slo, shi = repr(lo2), repr(hi2)
                    classes.add("limit:excludes_zero")
                elif r2 < 0.5:          # integers and exponents
                    slo, shi = gen.pick(rng, [("-3", "3"), ("-1", "2"), ("-1.5e0", "25e-1"), ("-7", "7")])
                    classes.add("limit:integer_or_exponent")
                parts.append('    <limit lower="%s" upper="%s" effort="10.0" velocity="1.5"/>\n' % (slo, shi))
            elif rng.random() < 0.4:
                classes.add("continuous:limit_without_bounds")
                parts.append('    <limit effort="10.0" velocity="1.5"/>\n')
            mi += 1
        rng.shuffle(parts)
        elems.append('  <joint name="%s" type="%s">\n%s  </joint>\n' % (name, jt, "".join(parts)))
    if rng.random() < 0.5:
        elems.append('  <material name="grey"><color rgba="0.5 0.5 0.5 1"/></material>\n')
    if rng.random() < 0.7:
        rng.shuffle(elems)
    xml = '<?xml version="1.0"?>\n<robot name="gen">\n' + "".join(elems) + "</robot>\n"
    return xml, sorted(classes), nmov, nfix


def check_file(path, ctx, bm, case, rng, bundled=False, nvec=20):
    try:
        chain = urdf_sem.Chain(path)
    except Exception as e:
        ctx.inconc("oracle parser failed on %s: %r" % (path, e))
        return
    ctx.clause("loads")
    try:
        arm = bm["loadArmFromURDF"](path)
        if arm is None:
            raise RuntimeError("loadArmFromURDF returned None")
    except Exception as e:
        import traceback
        tb = traceback.format_exc()
        cl = case.get("classes", [])
        where = ("missing_origin" if "omit:origin" in cl else "missing_axis" if "omit:axis" in cl else
                 "partial_origin" if ("omit:xyz" in cl or "omit:rpy" in cl) else "complete_file")
        ctx.violation("loads", "load_raises/%s/%s" % (type(e).__name__, where), {"exc": tb[-500:]}, case)
        return
    ctx.clause("dof_names_limits")
    ok = arm.num_dof == chain.num_dof and list(arm.joint_names) == chain.joint_names
    if ok:
        for i in range(chain.num_dof):
            if chain.lower[i] is not None and not (float(arm.joint_mins[i]) == chain.lower[i] and float(arm.joint_maxs[i]) == chain.upper[i]):
                ok = False
    if not ok:
        ctx.violation("dof_names_limits", "dof_names_limits", {"num_dof": [int(arm.num_dof), chain.num_dof], "names": [list(arm.joint_names), chain.joint_names],
                                                               "mins": np.asarray(arm.joint_mins, dtype=float), "lower": chain.lower}, case)
        return
    lo = np.array([-PI if v is None else v for v in chain.lower])
    hi = np.array([PI if v is None else v for v in chain.upper])
    clause = "bundled.fk" if bundled else "fk"
    for k in range(nvec):
        th = rng.uniform(lo, hi) if k else np.clip(np.zeros(chain.num_dof), lo, hi)      # the home vector, moved inside ranges that exclude zero
        if k == 1:
            th = lo.copy()
        if k == 2:
            th = hi.copy()
        th = np.where((np.abs(th) > 0) & (np.abs(th) < 1e-5), 0.0, th)
        ctx.clause(clause)
        try:
            T = arm.FK(th.copy()).gTM()
        except Exception as e:
            ctx.violation(clause, "fk_raises/" + type(e).__name__, {"exc": repr(e)[:300], "theta": th}, case)
            return
        To = chain.fk(th)
        e = tol.maxabs(T - To)
        ctx.err(clause, e)
        if not (e <= 1e-6 * max(1.0, float(np.linalg.norm(To[:3, 3])))):
            ang, d = se3.pose_dist(T, To)
            kk = "fk_differs/" + (",".join(c for c in case.get("classes", []) if c.startswith(("omit", "fixed"))) or "plain")
            ctx.violation(clause, kk if not bundled else "fk_differs/bundled", {"err": e, "rot_err": ang, "pos_err": d, "theta": th}, case)
            return


def run_shard(spec, ctx):
    bm = armlib.load_bm()
    rng = ctx.rng
    for rel in armlib.URDFS:
        case = {"file": rel, "classes": []}
        ctx.case({"bundled": rel, "shard": ctx.shard}, True)
        check_file(armlib.urdf_path(rel), ctx, bm, case, rng, bundled=True, nvec=10)
    d = tempfile.mkdtemp(prefix="c13_", dir=os.path.join(VERIF, ".cache"))
    prev_xml = None
    try:
        for i in range(int(spec["n"])):
            xml, classes, nmov, nfix = gen_urdf(rng)
            for c in classes:
                ctx.cls(c)
            # every other file is written over the path of the previous such file: what a load returns must depend on what the
            # file says now, not on what an earlier load of that path returned (a loader that memoises by path is caught here)
            reuse = i % 2 == 0
            p = os.path.join(d, "same.urdf" if reuse else "g%d.urdf" % i)
            if reuse and i > 0:
                classes = classes + ["path:rewritten_between_loads"]
                ctx.cls("path:rewritten_between_loads")
            with open(p, "w") as f:
                f.write(xml)
            case = {"xml": xml, "classes": classes}
            if reuse:
                if i > 0:
                    case["prev_xml"] = prev_xml
                prev_xml = xml
            nt = bool(nmov >= 2 and (nfix > 0 or any(c.startswith("omit") for c in classes)))
            ctx.evaluations += 1
            if nt:
                from ..common import h64
                ctx.hashes.add(h64(xml))
            check_file(p, ctx, bm, case, rng)
            os.remove(p)
        ctx.samples.append({"classes": classes, "moving": nmov, "fixed": nfix, "xml_head": xml[:600]})
    finally:
        shutil.rmtree(d, ignore_errors=True)


def replay(case, ctx):
    bm = armlib.load_bm()
    ctx.case("replay", True)
    if "file" in case:
        check_file(armlib.urdf_path(case["file"]), ctx, bm, case, ctx.rng, bundled=True)
        return
    d = tempfile.mkdtemp(prefix="c13_", dir=os.path.join(VERIF, ".cache"))
    try:
        p = os.path.join(d, "r.urdf")
        if case.get("prev_xml"):
            # the case was observed on a path that had held (and been loaded as) another robot just before
            with open(p, "w") as f:
                f.write(case["prev_xml"])
            try:
                bm["loadArmFromURDF"](p)
            except Exception:
                pass
        with open(p, "w") as f:
            f.write(case["xml"])
        check_file(p, ctx, bm, case, ctx.rng)
    finally:
        shutil.rmtree(d, ignore_errors=True)
