"""C04 - tm algebra is the SE(3) group; every constructor form means the same pose."""
import math
import warnings
import numpy as np
from scipy.spatial.transform import Rotation as Rsc

from .. import gen, tol
from ..oracle import se3

PI = math.pi

META = {
    "level": "exploration",
    "rule": ("seeded triples of poses (a, b, c): positions from magnitude classes {0,1e-6,1,10,1e3}, rotation vectors "
             "from angle classes in [0, pi-1e-3] (cut-off band, generic, near the bound) x axis classes.  Each "
             "triple evaluates the group-law clauses against 4x4 products of oracle matrices, and pose a is "
             "re-described in every constructor form (6-list/array/6x1, 3-list/array, rpy flag with scipy "
             "intrinsic-XYZ angles, 7-list/array with scipy-order quaternion, 4x4, nested pair, tm, 1-element "
             "object array) and all results compared to the oracle matrix.  Non-trivial: a has non-zero rotation "
             "and non-zero position; distinct by the quantised triple."),
    "assumptions": ["oracle matrices from scipy Rotation (vmon/oracle/se3.py)",
                    "rpy form means R = Rx(r) Ry(p) Rz(y) as the constructor composes it; angles taken from scipy "
                    "as_euler('XYZ') and re-validated against the oracle before use (gimbal-lock cases skipped)",
                    "tolerance: max(5e-6, 1e-9 |p|); 5e-6 max(1,|p|) if an input rotation vector lies in (0, 2e-6)"],
}
REQUIRED_REACH = ['general/faser_transform.py:tm.__init__', 'general/faser_transform.py:tm.__matmul__', 'general/faser_transform.py:tm.inv', 'general/basic_helpers.py:localToGlobal', 'general/basic_helpers.py:globalToLocal']
REQUIRED_CLAUSES = ["ctor.list6", "ctor.arr6", "ctor.arr6x1", "ctor.list3", "ctor.arr3", "ctor.rpy6", "ctor.rpy3", "ctor.pair_rpy", "ctor.list7",
                    "ctor.arr7", "ctor.mat4", "ctor.columns", "ctor.pair", "ctor.tm", "ctor.objarr", "quat.roundtrip", "matmul", "inv",
                    "assoc", "matmul.ndarray", "l2g", "g2l", "l2g.g2l.inverse"]


def plan(tier, seed):
    if tier == "quick":
        return [{"n": 2500, "timeout_s": 1800} for _ in range(16)]
    return [{"n": 62500, "timeout_s": 7200} for _ in range(16)]


def gen_case(rng):
    return {"a": gen.taa(rng, 1e3).tolist(), "b": gen.taa(rng, 1e3).tolist(), "c": gen.taa(rng, 1e3).tolist()}


def check_case(case, ctx, tm, fsr):
    ta, tb, tc = (np.array(case[k], dtype=float) for k in "abc")
    A, B, C = se3.taa_to_T(ta), se3.taa_to_T(tb), se3.taa_to_T(tc)
    band = any(0.0 < np.linalg.norm(t[3:]) < tol.BAND for t in (ta, tb, tc))
    dmax = max(np.linalg.norm(t[:3]) for t in (ta, tb, tc))

    def cmp(clause, key, got, want, scale=None):
        ctx.clause(clause)
        if not (isinstance(got, np.ndarray) and got.shape == (4, 4)):
            ctx.violation(clause, key + "/shape", {"got": repr(got)[:200]}, case)
            return False
        sc = tol.maxabs(want[:3, 3]) if scale is None else scale
        t = tol.entry_tol(sc, band, max(dmax, sc))
        okr, er = tol.close(got[:3, :3], want[:3, :3], tol.ABS5)
        okp, ep = tol.close(got[:3, 3], want[:3, 3], t)
        okl = np.array_equal(got[3], [0.0, 0.0, 0.0, 1.0])
        ctx.err(clause, max(er, ep if np.isfinite(ep) else 1e300))
        if not (okr and okp and okl):
            ctx.violation(clause, key, {"err_rot": er, "err_pos": ep, "tol_pos": t, "last_row": got[3]}, case)
            return False
        return True

    def build(clause, key, fn):
        try:
            return fn()
        except Exception as e:
            ctx.clause(clause)
            ctx.violation(clause, key + "/raises/" + type(e).__name__, {"exc": repr(e)[:300]}, case)
            return None

    def gTM(obj, clause, key):
        if obj is None:
            return None
        try:
            M = obj.gTM()
            # every product / inverse / constructed object is one pose however it is read: the six-vector side must describe the
            # same element (this is where a result with a correct matrix and a short-cut six-vector shows)
            taa = np.asarray(obj.gTAA(), dtype=float).reshape(-1)
            if taa.shape == (6,) and isinstance(M, np.ndarray) and M.shape == (4, 4) and np.all(np.isfinite(taa)):
                Mv = se3.rp(se3.exp3(taa[3:]), taa[:3])
                t = tol.entry_tol(tol.maxabs(M[:3, 3]), True, max(dmax, tol.maxabs(M[:3, 3])))
                if tol.maxabs(Mv[:3, :3] - M[:3, :3]) > tol.ABS5 or tol.maxabs(Mv[:3, 3] - M[:3, 3]) > t:
                    ctx.clause(clause)
                    ctx.violation(clause, key + "/six_vector_is_another_pose", {"rot": tol.maxabs(Mv[:3, :3] - M[:3, :3]), "pos": tol.maxabs(Mv[:3, 3] - M[:3, 3])}, case)
            return M
        except Exception as e:
            ctx.clause(clause)
            ctx.violation(clause, key + "/no_matrix/" + type(e).__name__, {"exc": repr(e)[:300]}, case)
            return None

    # ------------------- constructor forms for pose a ---------------------
    p, w = ta[:3], ta[3:]
    Ra = A[:3, :3]
    q = Rsc.from_matrix(Ra).as_quat()
    forms = [
        ("ctor.list6", lambda: tm([float(x) for x in ta]), A),
        ("ctor.arr6", lambda: tm(ta.copy()), A),
        ("ctor.arr6x1", lambda: tm(ta.reshape((6, 1)).copy()), A),
        ("ctor.list3", lambda: tm([float(x) for x in w]), se3.rp(Ra, np.zeros(3))),
        ("ctor.arr3", lambda: tm(w.copy()), se3.rp(Ra, np.zeros(3))),
        ("ctor.list7", lambda: tm([float(x) for x in p] + [float(x) for x in q]), A),
        ("ctor.arr7", lambda: tm(np.concatenate([p, q])), A),
        ("ctor.mat4", lambda: tm(A.copy()), A),
        ("ctor.columns", lambda: tm(w.reshape((3, 1)).copy()), se3.rp(Ra, np.zeros(3))),
        ("ctor.columns", lambda: tm(np.concatenate([p, q]).reshape((7, 1))), A),
        ("ctor.columns", lambda: tm(np.asfortranarray(A.copy())), A),
        ("ctor.columns", lambda: tm([np.float64(x) for x in ta]), A),
        ("ctor.columns", lambda: tm([int(x) if float(x).is_integer() else float(x) for x in ta]), A),
        ("ctor.pair", lambda: tm([[float(x) for x in p], [float(x) for x in w]]), A),
    ]
    for clause, fn, want in forms:
        o = build(clause, clause, fn)
        M = gTM(o, clause, clause)
        if M is not None:
            cmp(clause, clause, M, want)
    # rpy forms (R = Rx Ry Rz)
    with warnings.catch_warnings():
        warnings.simplefilter("error")
        try:
            eul = Rsc.from_matrix(Ra).as_euler("XYZ")
        except Exception:
            eul = None
    if eul is not None and abs(abs(eul[1]) - PI / 2) > 1e-3:
        Rchk = se3.exp3([eul[0], 0, 0]) @ se3.exp3([0, eul[1], 0]) @ se3.exp3([0, 0, eul[2]])
        if np.abs(Rchk - Ra).max() < 1e-10:
            for clause, fn, want in [
                ("ctor.rpy6", lambda: tm([float(x) for x in p] + [float(x) for x in eul], rpy=True), A),
                ("ctor.rpy6", lambda: tm(np.concatenate([p, eul]), rpy=True), A),
                ("ctor.rpy3", lambda: tm([float(x) for x in eul], rpy=True), se3.rp(Ra, np.zeros(3))),
                ("ctor.rpy3", lambda: tm(np.array(eul), rpy=True), se3.rp(Ra, np.zeros(3))),
                ("ctor.pair_rpy", lambda: tm([[float(x) for x in p], [float(x) for x in eul]], rpy=True), A),
                ("ctor.pair_rpy", lambda: tm([[float(x) for x in p], [float(x) for x in eul]], True), A),
            ]:
                o = build(clause, clause, fn)
                M = gTM(o, clause, clause)
                if M is not None:
                    cmp(clause, clause, M, want)
    else:
        ctx.cls("rpy_skipped_gimbal")

    a = build("ctor.list6", "ctor.list6", lambda: tm([float(x) for x in ta]))
    b = build("ctor.arr6", "ctor.arr6", lambda: tm(tb.copy()))
    c = build("ctor.mat4", "ctor.mat4", lambda: tm(C.copy()))
    if a is None or b is None or c is None or gTM(a, "ctor.list6", "x") is None:
        return
    o = build("ctor.tm", "ctor.tm", lambda: tm(a))
    M = gTM(o, "ctor.tm", "ctor.tm")
    if M is not None:
        cmp("ctor.tm", "ctor.tm", M, A)
    arr = np.empty(1, dtype=object)
    arr[0] = a
    o = build("ctor.objarr", "ctor.objarr", lambda: tm(arr))
    M = gTM(o, "ctor.objarr", "ctor.objarr")
    if M is not None:
        cmp("ctor.objarr", "ctor.objarr", M, A)
    # quaternion round trip
    def quat_rt():
        t = tm(a)
        t.setQuat(t.getQuat())
        return t
    o = build("quat.roundtrip", "quat.roundtrip", quat_rt)
    M = gTM(o, "quat.roundtrip", "quat.roundtrip")
    if M is not None:
        if cmp("quat.roundtrip", "quat.roundtrip", M, A):
            ok, e = tol.close(o.gTAA().reshape(6)[:3], ta[:3], tol.entry_tol(np.linalg.norm(ta[:3])))
            if not ok:
                ctx.violation("quat.roundtrip", "quat.roundtrip/taa", {"err": e}, case)

    # ------------------- group laws ----------------------------------------
    AB = A @ B
    sc2 = np.linalg.norm(A[:3, 3]) + np.linalg.norm(B[:3, 3])
    sc3 = sc2 + np.linalg.norm(C[:3, 3])
    o = build("matmul", "matmul", lambda: a @ b)
    M = gTM(o, "matmul", "matmul")
    if M is not None:
        cmp("matmul", "matmul", M, AB, sc2)
    o = build("matmul", "mul_tm", lambda: a * b)
    M = gTM(o, "matmul", "mul_tm")
    if M is not None:
        cmp("matmul", "mul_tm", M, AB, sc2)
    o = build("inv", "inv", lambda: a.inv())
    M = gTM(o, "inv", "inv")
    if M is not None:
        cmp("inv", "inv", M, se3.inv(A))
        o2 = build("inv", "inv.compose", lambda: a.inv() @ a)
        M2 = gTM(o2, "inv", "inv.compose")
        if M2 is not None:
            cmp("inv", "inv.compose", M2, np.eye(4), np.linalg.norm(A[:3, 3]))
    o1 = build("assoc", "assoc", lambda: (a @ b) @ c)
    o2 = build("assoc", "assoc", lambda: a @ (b @ c))
    M1, M2 = gTM(o1, "assoc", "assoc"), gTM(o2, "assoc", "assoc")
    if M1 is not None and M2 is not None:
        cmp("assoc", "assoc", M1, M2, sc3)
        cmp("assoc", "assoc.oracle", M1, AB @ C, sc3)
    o = build("matmul.ndarray", "matmul.ndarray", lambda: a @ B.copy())
    M = gTM(o, "matmul.ndarray", "matmul.ndarray")
    if M is not None:
        cmp("matmul.ndarray", "matmul.ndarray", M, AB, sc2)
    o = build("l2g", "l2g", lambda: fsr.localToGlobal(a, b))
    Ml = gTM(o, "l2g", "l2g")
    if Ml is not None:
        cmp("l2g", "l2g", Ml, AB, sc2)
    o = build("g2l", "g2l", lambda: fsr.globalToLocal(a, b))
    Mg = gTM(o, "g2l", "g2l")
    if Mg is not None:
        cmp("g2l", "g2l", Mg, se3.inv(A) @ B, sc2)
    o = build("l2g.g2l.inverse", "l2g.g2l", lambda: fsr.globalToLocal(a, fsr.localToGlobal(a, b)))
    M = gTM(o, "l2g.g2l.inverse", "l2g.g2l")
    if M is not None:
        cmp("l2g.g2l.inverse", "l2g.g2l", M, B, sc2)
    o = build("l2g.g2l.inverse", "g2l.l2g", lambda: fsr.localToGlobal(a, fsr.globalToLocal(a, b)))
    M = gTM(o, "l2g.g2l.inverse", "g2l.l2g")
    if M is not None:
        cmp("l2g.g2l.inverse", "g2l.l2g", M, B, sc2)


def _load():
    from ..worker import import_target
    import_target()
    from basic_robotics.general import tm, fsr
    return tm, fsr


def run_shard(spec, ctx):
    tm, fsr = _load()
    for _ in range(int(spec["n"])):
        case = gen_case(ctx.rng)
        ta = np.array(case["a"])
        ctx.case({k: gen.quant(case[k]) for k in "abc"}, bool(np.linalg.norm(ta[3:]) > 1e-3 and np.linalg.norm(ta[:3]) > 0), sample=case)
        try:
            check_case(case, ctx, tm, fsr)
        except Exception as e:
            ctx.violation("harness", "unexpected/" + type(e).__name__, {"exc": repr(e)[:300]}, case)


def replay(case, ctx):
    tm, fsr = _load()
    ctx.case(case, True)
    check_case(case, ctx, tm, fsr)
