"""C11 - Stewart platform inverse Jacobian is d(legs)/d(twist); leg forces balance the load."""
import math
import numpy as np

from .. import gen, splib, tol
from ..oracle import se3

PI = math.pi

META = {
    "level": "exploration",
    "rule": ("platform geometries and base poses of C09 (optionally moved / re-spun), in-workspace relative poses with "
             "cond(inverse Jacobian) <= 1e4, random spatial twists and wrenches, random plate/actuator masses and gravity "
             "vectors.  Derivative of the platform's own IK lengths along top <- exp([V]t).top by Richardson central "
             "differences (h in [1e-4, 2e-3]) compared with inverseJacobian . V (1e-6); static equilibrium identities (1e-8 "
             "relative to the wrench norm) for staticForces, staticForcesInv, sumActuatorWrenches, the body-frame interface "
             "and carryMassCalc.  Non-trivial: the pose has lateral offset and rotation and the base is not the identity; "
             "distinct by quantised (geometry, pose, twist)."),
    "assumptions": ["conventions as documented: spatial twists (omega, v) applied on the left, wrenches (moment, force) about the space origin",
                    "weights in carryMassCalc act at the top-plate origin and at shaft_grav_center from the top joint along each leg"],
}
REQUIRED_CLASSES = ["cond<1e2", "cond_1e2..1e3", "cond_1e3..1e4"]
REQUIRED_REACH = ['kinematics/sp_model.py:SP.inverseJacobian', 'kinematics/robot_model.py:Robot.staticForces', 'kinematics/robot_model.py:Robot.staticForcesInv', 'kinematics/sp_model.py:SP.carryMassCalc', 'kinematics/sp_model.py:SP.sumActuatorWrenches']
REQUIRED_CLAUSES = ["jacobian.derivative", "jacobian.explicit_elsewhere", "statics.equilibrium", "statics.inverse", "statics.sum_actuator", "statics.body", "statics.body_inverse",
                    "carry_mass"]


def plan(tier, seed):
    if tier == "quick":
        return [{"n": 25, "timeout_s": 1800} for _ in range(16)]
    return [{"n": 12000, "timeout_s": 14400} for _ in range(16)]


def gen_case(rng):
    g = splib.gen_geometry(rng)
    far = rng.random() < 0.3

    def far_pos():
        # "any base placement": moments are taken about the world origin, so distance is what drives the condition number up to the 1e4 bound
        d = rng.normal(size=3)
        return (d / np.linalg.norm(d) * 10 ** rng.uniform(0.5, 2.3)).tolist()
    if far and rng.random() < 0.6:
        g["base"] = far_pos() + gen.rotvec(rng, ["zero", "generic2", "generic"]).tolist()
        far = False
    model = splib.SPModel(g)
    steps = []
    if far or rng.random() < 0.3:
        steps.append({"op": "move", "base": (far_pos() if far else rng.uniform(-3, 3, 3).tolist()) + gen.rotvec(rng, ["zero", "generic2", "generic"]).tolist()})
    if rng.random() < 0.3:
        steps.insert(0, {"op": "spin", "rot": float(rng.uniform(-PI, PI))})
    return {"g": g, "steps": steps, "rel": splib.gen_rel_pose(rng, model.h).tolist(), "V": (rng.normal(size=6) * [1, 1, 1, 0.5, 0.5, 0.5]).tolist(),
            "W": (rng.normal(size=6) * rng.choice([1.0, 30.0, 300.0])).tolist(), "h": float(10 ** rng.uniform(-4, math.log10(2e-3))),
            "grav": (np.array([0, 0, -9.81]) if rng.random() < 0.6 else rng.normal(size=3) * 9.81).tolist(),
            "other_base": np.concatenate([rng.uniform(-3, 3, 3), gen.rotvec(rng, ["zero", "generic2"])]).tolist(),
            "other_rel": splib.gen_rel_pose(rng, model.h, 0.5).tolist()}


def run_case(case, ctx, bm):
    tm = bm["tm"]
    Wrench = bm["Wrench"]
    g = case["g"]
    model = splib.SPModel(g)
    sp = splib.build_sp(g, bm)
    for st in case["steps"]:
        if st["op"] == "move":
            rel0 = se3.inv(model.B) @ model.T
            model.B = se3.taa_to_T(st["base"])
            model.T = model.B @ rel0
            sp.move(tm(np.array(st["base"], dtype=float)))
        else:
            model.spin(st["rot"])
            sp.spinCustom(st["rot"])
    sp.setGrav(np.array(case["grav"], dtype=float))
    X = model.B @ se3.taa_to_T(case["rel"])
    L, valid = sp.IK(top_plate_pos=tm(X.copy()))
    if not (bool(valid) and sp.validation_error == "" and tol.maxabs(sp.getTopT().gTM() - X) < 1e-12 * max(1.0, tol.maxabs(X))):
        ctx.cls("pose_not_accepted")
        return
    tag = "+".join(s["op"] for s in case["steps"]) or "fresh"

    def viol(clause, key, **d):
        ctx.violation(clause, key + "/" + tag, d, case)

    try:
        Jinv = np.asarray(sp.inverseJacobian(), dtype=float)
    except Exception as e:
        import traceback
        ctx.clause("jacobian.derivative")
        viol("jacobian.derivative", "raises/" + type(e).__name__, exc=traceback.format_exc()[-400:])
        return
    if Jinv.shape != (6, 6):
        ctx.clause("jacobian.derivative")
        viol("jacobian.derivative", "shape", shape=Jinv.shape)
        return
    cond = float(np.linalg.cond(Jinv))
    if cond > 1e4:
        ctx.cls("skipped_ill_conditioned")
        return
    ctx.cls("evaluated")
    ctx.cls("cond<1e2" if cond < 1e2 else "cond_1e2..1e3" if cond < 1e3 else "cond_1e3..1e4")
    V = np.array(case["V"], dtype=float)
    if float(np.linalg.norm(X[:3, 3])) > 5.0:
        # far from the world origin a unit spatial twist sweeps the plate through |p| * h: outside the workspace and outside the
        # range where a central difference resolves 1e-6.  Same set of twists, parametrised at the plate: V = Ad(X) V_plate.
        V = se3.Ad(X) @ V
        ctx.cls("twist_parametrised_at_plate")
    # the relation is linear in the twist: scale it so that one step moves the plate by at most ~h platform radii (a difference
    # quotient of a small fast platform otherwise carries h^4 truncation errors above the 1e-6 it is compared at)
    Vb = se3.Ad(se3.inv(X)) @ V
    V = V / max(1.0, float(np.linalg.norm(Vb[:3])), float(np.linalg.norm(Vb[3:])) / float(g["rb"]))
    h = case["h"]
    B = model.B

    def lens(t):
        Tt = se3.exp6(V * t) @ X
        l, _ = sp.IK(top_plate_pos=tm(Tt), bottom_plate_pos=tm(B.copy()), protect=True)
        return np.asarray(l, dtype=float).reshape(-1)
    D = lambda s: (lens(s) - lens(-s)) / (2 * s)
    dl = (4 * D(h / 2) - D(h)) / 3
    sp.IK(top_plate_pos=tm(X.copy()), bottom_plate_pos=tm(B.copy()), protect=True)
    ctx.clause("jacobian.derivative")
    sc = max(1e-9, float(np.linalg.norm(Jinv)) * float(np.linalg.norm(V)))
    e = float(np.linalg.norm(Jinv @ V - dl)) / sc
    ctx.err("jacobian.derivative", e)
    if e > 1e-6:
        viol("jacobian.derivative", "jacobian.derivative", rel_err=e, cond=cond)
    # explicit-argument form must agree with the stateful one - also while the platform itself stands somewhere else
    J2 = np.asarray(sp.inverseJacobian(top_plate_pos=tm(X.copy()), bottom_plate_pos=tm(B.copy())), dtype=float)
    if tol.maxabs(J2 - Jinv) > 1e-9 * max(1.0, tol.maxabs(Jinv)):
        viol("jacobian.derivative", "explicit_args_differ", err=tol.maxabs(J2 - Jinv))
    B2 = se3.taa_to_T(case["other_base"])
    X2 = B2 @ se3.taa_to_T(case["other_rel"])
    sp.IK(top_plate_pos=tm(X2.copy()), bottom_plate_pos=tm(B2.copy()), protect=True)
    ctx.clause("jacobian.explicit_elsewhere")
    J3 = np.asarray(sp.inverseJacobian(top_plate_pos=tm(X.copy()), bottom_plate_pos=tm(B.copy())), dtype=float)
    if tol.maxabs(J3 - Jinv) > 1e-9 * max(1.0, tol.maxabs(Jinv)):
        viol("jacobian.explicit_elsewhere", "explicit_args_differ_when_standing_elsewhere", err=tol.maxabs(J3 - Jinv))
    Wv0 = np.array(case["W"], dtype=float)
    tau3 = np.asarray(sp.staticForces(Wrench(Wv0.reshape((6, 1)).copy()), tm(X.copy()), tm(B.copy())), dtype=float).reshape(-1)
    if float(np.linalg.norm(Jinv.T @ tau3 - Wv0)) > 1e-8 * max(1.0, cond / 100.0) * max(1e-9, float(np.linalg.norm(Wv0))):
        viol("jacobian.explicit_elsewhere", "static_forces_explicit_args_when_standing_elsewhere", err=float(np.linalg.norm(Jinv.T @ tau3 - Wv0)))
    taub3 = np.asarray(sp.staticForcesBody(Wrench(Wv0.reshape((6, 1)).copy()), tm(X.copy()), tm(B.copy())), dtype=float).reshape(-1)
    Wsb = se3.Ad(se3.inv(X)).T @ Wv0
    if float(np.linalg.norm(Jinv.T @ taub3 - Wsb)) > 1e-8 * max(1.0, cond / 100.0) * max(1e-9, float(np.linalg.norm(Wsb))):
        viol("jacobian.explicit_elsewhere", "static_forces_body_explicit_args_when_standing_elsewhere", err=float(np.linalg.norm(Jinv.T @ taub3 - Wsb)))
    if tol.maxabs(sp.getTopT().gTM() - X2) > 1e-12 * max(1.0, tol.maxabs(X2)) or tol.maxabs(sp.getBottomT().gTM() - B2) > 1e-12 * max(1.0, tol.maxabs(B2)):
        viol("jacobian.explicit_elsewhere", "explicit_query_moved_platform")
    sp.IK(top_plate_pos=tm(X.copy()), bottom_plate_pos=tm(B.copy()), protect=True)

    Wv = np.array(case["W"], dtype=float)
    Wn = max(1e-9, float(np.linalg.norm(Wv)))
    rel = 1e-8 * max(1.0, cond / 100.0)

    def mkW():
        return Wrench(Wv.reshape((6, 1)).copy())

    def guard(clause, fn):
        try:
            return fn()
        except Exception as e:
            import traceback
            ctx.clause(clause)
            viol(clause, clause + "/raises/" + type(e).__name__, exc=traceback.format_exc()[-400:])
            return None

    def data(x):
        return np.asarray(x.getData() if hasattr(x, "getData") else x, dtype=float).reshape(-1)

    tau = guard("statics.equilibrium", lambda: sp.staticForces(mkW()))
    if tau is None:
        return
    tau = np.asarray(tau, dtype=float).reshape(-1)
    ctx.clause("statics.equilibrium")
    e = float(np.linalg.norm(Jinv.T @ tau - Wv)) / Wn
    ctx.err("statics.equilibrium", e)
    if tau.shape != (6,) or e > rel:
        viol("statics.equilibrium", "statics.equilibrium", rel_err=e, cond=cond)
    Wb = guard("statics.inverse", lambda: sp.staticForcesInv(tau.reshape((6, 1)).copy()))
    if Wb is not None:
        ctx.clause("statics.inverse")
        e = float(np.linalg.norm(data(Wb) - Wv)) / Wn
        if e > rel:
            viol("statics.inverse", "statics.inverse", rel_err=e)
    sw = guard("statics.sum_actuator", lambda: sp.sumActuatorWrenches(tau.reshape((6, 1)).copy()))
    if sw is not None:
        ctx.clause("statics.sum_actuator")
        e = float(np.linalg.norm(data(sw) + Wv)) / Wn
        ctx.err("statics.sum_actuator", e)
        if e > rel:
            viol("statics.sum_actuator", "statics.sum_actuator", rel_err=e, got=data(sw), want=-Wv)
    # body interface: W_s = Ad(inv T_top)^T W_b
    Ws_from_b = se3.Ad(se3.inv(X)).T @ Wv
    taub = guard("statics.body", lambda: sp.staticForcesBody(mkW()))
    if taub is not None:
        taub = np.asarray(taub, dtype=float).reshape(-1)
        ctx.clause("statics.body")
        nb = max(1e-9, float(np.linalg.norm(Ws_from_b)))
        e = float(np.linalg.norm(Jinv.T @ taub - Ws_from_b)) / nb
        ctx.err("statics.body", e)
        if e > rel:
            viol("statics.body", "statics.body", rel_err=e)
        Wbb = guard("statics.body_inverse", lambda: sp.staticForcesInvBody(taub.reshape((6, 1)).copy()))
        if Wbb is not None:
            ctx.clause("statics.body_inverse")
            e = float(np.linalg.norm(data(Wbb) - Wv)) / Wn
            if e > rel:
                viol("statics.body_inverse", "statics.body_inverse", rel_err=e)
    # mass-carrying variant
    m = g["masses"]
    grav = np.array(case["grav"], dtype=float)
    res = guard("carry_mass", lambda: sp.carryMassCalc(mkW()))
    if res is not None:
        tauc = np.asarray(res[0], dtype=float).reshape(-1)
        _, bs, ts = model.lengths(B, X)
        want = Wv.copy()
        ptop = X[:3, 3]
        f = m["top"] * grav
        want += np.concatenate([np.cross(ptop, f), f])
        for i in range(6):
            u = (bs[:, i] - ts[:, i])
            u = u / np.linalg.norm(u)
            pc = ts[:, i] + u * m["shaft_cog"]
            f = m["shaft"] * grav
            want += np.concatenate([np.cross(pc, f), f])
        ctx.clause("carry_mass")
        wn = max(1e-9, float(np.linalg.norm(want)))
        e = float(np.linalg.norm(Jinv.T @ tauc - want)) / wn
        ctx.err("carry_mass", e)
        if e > rel:
            viol("carry_mass", "carry_mass", rel_err=e)


def run_shard(spec, ctx):
    bm = splib.load_bm()
    for _ in range(int(spec["n"])):
        case = gen_case(ctx.rng)
        g = case["g"]
        r0 = np.array(case["rel"])
        ctx.case({"g": gen.quant([g["rb"], g["rt"], g["bspace"], g["tspace"], g["lmin"], g["lmax"]], 1e-6), "rel": gen.quant(r0, 1e-6),
                  "V": gen.quant(case["V"], 1e-6)},
                 bool(np.linalg.norm(r0[:2]) > 0 and np.linalg.norm(r0[3:]) > 0 and np.any(np.asarray(g["base"]) != 0)), sample_every=0)
        try:
            run_case(case, ctx, bm)
        except Exception:
            import traceback
            ctx.violation("harness", "unexpected", {"exc": traceback.format_exc()[-800:]}, case)
    ctx.samples.append({"geometry": {k: g[k] for k in ("kind", "rb", "rt", "lmin", "lmax", "rot", "base")}, "rel": case["rel"], "V": case["V"], "W": case["W"]})


def replay(case, ctx):
    bm = splib.load_bm()
    ctx.case("replay", True)
    run_case(case, ctx, bm)
