"""C07 - Arm inverse kinematics never claims a pose it has not reached."""
import math
import random as pyrandom
import numpy as np

from .. import armlib, gen, tol
from ..oracle import se3

PI = math.pi
TOLS = [1e-2, 1e-4, 1e-6, 1e-8]
ANG_SLACK = 2e-7       # the trace-based angle of a product of ~10 rotation matrices cannot be resolved below ~sqrt(1e-14)

META = {
    "level": "exploration",
    "rule": ("arms of C05 (bundled URDFs, 6R test arm, random 1..7-joint chains; optional base move / tool change before "
             "the solve) x goals (FK of in-limit joint vectors, of vectors on the limit boundary, poses beyond 1.5x an upper "
             "bound of the reach) x starts (within 0.02 rad, far, outside the limits, current state) x restarts on/off x "
             "tolerance pairs from {1e-2,1e-4,1e-6,1e-8}^2 with pos != rot x solver paths {IK limit-respecting, "
             "constrainedIK, IK free, IKFree}.  Oracle: own product-of-exponentials FK of the returned vector.  "
             "Non-trivial: reachable goal and a start that is not the solution; distinct by (arm, goal, start, "
             "tolerances, path)."),
    "assumptions": ["success is judged with the solver's own documented criterion at its weakest: rotation angle of "
                    "inv(FK).goal <= rot_tolerance (+2e-7 rad numerical resolution) and the smallest of |v_space|, |v_body|, "
                    "|dp| <= pos_tolerance",
                    "reach bound = |q_0| + sum |q_{i+1}-q_i| + |p_tool-q_last| (valid for revolute chains whose q_i lie on the axes)",
                    "local-convergence clause only for solutions >= 0.15 rad inside the limits with sigma_min(J) >= 0.05, start "
                    "within 0.02 rad, default iteration budget; a failure that flips under a 1e-12 shift of the start is counted "
                    "as ill-conditioned, not asserted"],
}
REQUIRED_CLASSES = ["goal:held_pose", "state_outside_limits_before_solve"]
REQUIRED_REACH = ['kinematics/arm_model.py:Arm.IK', 'kinematics/arm_model.py:Arm.constrainedIK', 'kinematics/arm_model.py:Arm.IKFree']
REQUIRED_CLAUSES = ["success.orientation", "success.position", "success.in_limits", "success.state", "unreachable", "failure.coherent",
                    "local_convergence"]


def plan(tier, seed):
    if tier == "quick":
        return [{"n": 300, "timeout_s": 1800} for _ in range(16)]
    return [{"n": 20000, "timeout_s": 14400} for _ in range(16)]


def gen_case(rng):
    """A session: one arm, an optional prefix, then 1..4 solves on the SAME arm object (state carried between solves)."""
    first = gen_solve_case(rng)
    model = armlib.ArmModel(first["arm"], first["base"])
    solves = [{k: first[k] for k in SOLVE_KEYS}]
    if rng.random() < 0.5:
        for _ in range(int(rng.integers(1, 4))):
            nxt = gen_solve_case(rng, first["arm"], first["base"])
            sv = {k: nxt[k] for k in SOLVE_KEYS}
            if rng.random() < 0.35:
                # servo-loop pattern: ask for the pose the arm holds right now (whatever left it there), possibly after the state
                # was put outside the limits through the public unclamped FK
                sv["goal_kind"] = "held"
                if sv["path"] == "IKFree":
                    sv["path"] = "IK"
                if rng.random() < 0.6:
                    t = rng.uniform(model.lo, model.hi)
                    for k in rng.choice(model.n, int(rng.integers(1, model.n + 1)), replace=False):
                        t[k] = (model.hi[k] + rng.uniform(0.05, 1.5)) if rng.random() < 0.5 else (model.lo[k] - rng.uniform(0.05, 1.5))
                    sv["pre_fk"] = t.tolist()
            solves.append(sv)
    out = {"arm": first["arm"], "base": first["base"], "prefix": first["prefix"], "solves": solves}
    return out


SOLVE_KEYS = ["pos_tol", "rot_tol", "goal_theta", "goal_kind", "theta0", "start_kind", "path", "check", "inds", "rseed"]


def gen_solve_case(rng, desc=None, base=None):
    r = rng.random()
    if desc is not None:
        r = 2.0
    if r < 0.3:
        desc = armlib.urdf_desc(gen.pick(rng, armlib.URDFS))
    elif r < 0.45:
        desc = armlib.test6r_desc()
    elif r < 1.5:
        desc = armlib.random_desc(rng)
    if base is None:
        base = armlib.random_base(rng, 0.3)
    model = armlib.ArmModel(desc, base)
    n = model.n
    pt = float(gen.pick(rng, TOLS))
    rt = float(gen.pick(rng, [t for t in TOLS if t != pt]))
    gk = gen.pick(rng, ["inside", "inside", "inside", "deep", "deep", "boundary", "beyond"])
    margin = 0.15 if gk == "deep" else 0.0
    lo, hi = model.lo + margin, model.hi - margin
    if np.any(lo >= hi):
        lo, hi, gk = model.lo, model.hi, "inside"
    gth = rng.uniform(lo, hi)
    if gk == "boundary":
        k = int(rng.integers(n))
        gth[k] = model.lo[k] if rng.random() < 0.5 else model.hi[k]
    gth = np.where((np.abs(gth) > 0) & (np.abs(gth) < 1e-5), 0.0, gth)
    sk = gen.pick(rng, ["near", "near", "near", "far", "outside", "current"])
    if sk == "near":
        d = rng.normal(size=n)
        t0 = gth + d / max(1e-12, np.max(np.abs(d))) * rng.uniform(0.001, 0.02)
    elif sk == "far":
        t0 = rng.uniform(model.lo, model.hi)
    elif sk == "outside":
        t0 = rng.uniform(model.lo, model.hi)
        k = int(rng.integers(n))
        t0[k] = model.hi[k] + rng.uniform(0.1, 1.0)
    else:
        t0 = None
    path = gen.pick(rng, ["IK", "IK", "constrainedIK", "free", "free", "IKFree"])
    if path == "IKFree" and n < 2:
        path = "IK"             # IKFree squeezes a 1-joint vector to 0-d: outside what it accepts
    prefix = []
    if rng.random() < 0.35:
        prefix.append({"op": "move", "base": armlib.random_base(rng, 0.0)})
    if rng.random() < 0.35:
        prefix.append({"op": "setArbitraryHome", "rel": np.concatenate([rng.uniform(-0.3, 0.3, 3), gen.rotvec(rng, ["zero", "generic2"])]).tolist()})
    inds = None
    if path == "IKFree":
        m = int(rng.integers(1, min(n, 6) + 1))       # the least-squares root finder needs #free <= 6 residuals
        inds = sorted(int(x) for x in rng.choice(n, m, replace=False))
        if t0 is None:
            t0 = gth.copy()
            t0[inds] += rng.normal(size=m) * 0.02
        else:
            keep = np.ones(n, dtype=bool)
            keep[inds] = False
            t0 = np.where(keep, gth, t0)       # only the free joints differ from the solution
        if rng.random() < 0.4 and m < n:
            # nearly reachable: the held joints are a little off, so the best the free joints can do misses the goal by 1e-5 .. 1e-3 -
            # between the configured tolerances and any fixed acceptance threshold
            keep = np.ones(n, dtype=bool)
            keep[inds] = False
            t0 = np.asarray(t0, dtype=float) + keep * rng.choice([-1.0, 1.0], n) * 10 ** rng.uniform(-5, -3)
            sk = "held_joints_off"
    if gk != "beyond" and path != "IKFree" and t0 is not None and rng.random() < 0.12:
        # the start already has the goal's orientation and two of its three coordinates: the whole remaining error lies along one world axis
        gk = "axis_offset:%d:%r" % (int(rng.integers(3)), float(rng.choice([-1.0, 1.0]) * 10 ** rng.uniform(-3, -0.3)))
        gth = np.asarray(t0, dtype=float).copy()
    return {"arm": desc, "base": base, "prefix": prefix, "pos_tol": pt, "rot_tol": rt, "goal_theta": gth.tolist(), "goal_kind": gk,
            "theta0": None if t0 is None else np.asarray(t0).tolist(), "start_kind": sk, "path": path,
            "check": bool(rng.random() < 0.6), "inds": inds, "rseed": int(rng.integers(1 << 30))}


def run_case(case, ctx, bm):
    tm = bm["tm"]
    desc = case["arm"]
    model = armlib.ArmModel(desc, case["base"])
    arm = armlib.build_arm(desc, case["base"], bm)
    for op in case["prefix"]:
        if op["op"] == "move":
            model.B = se3.taa_to_T(op["base"])
            arm.move(tm(np.array(op["base"], dtype=float)))
        else:
            ee = model.pose()
            model.M = model.M @ se3.taa_to_T(op["rel"])
            arm.setArbitraryHome(tm(ee @ se3.taa_to_T(op["rel"])))
    reach = model.reach_bound()
    session = case
    for si, solve in enumerate(case["solves"]):
        run_solve(session, solve, si, ctx, bm, arm, model, reach)


def run_solve(session, case, si, ctx, bm, arm, model, reach):
    tm = bm["tm"]
    full = dict(session)
    full["failing_solve"] = si
    _case_for_report = full
    arm.pos_tolerance = case["pos_tol"]
    arm.rot_tolerance = case["rot_tol"]
    pt, rt = case["pos_tol"], case["rot_tol"]
    gth = np.array(case["goal_theta"], dtype=float)
    # The claim under test is about the arm's kinematics as it publishes them (getScrewList + home pose); C05/C13 decide
    # whether those are the right ones.  This keeps the oracle exact to 1e-14 also for URDF arms, whose loaded screws
    # differ from the file's semantics by ~4e-9 (below C13's 1e-6, above a 1e-8 IK tolerance).
    Sg = np.asarray(arm.getScrewList(), dtype=float)
    if si == 0:
        model.Mg0 = arm.FK(np.zeros(model.n)).gTM()          # home pose read once (a later read would disturb the carried state)
        if tol.maxabs(se3.poe_space(model.Mg0, Sg, gth) - model.pose(gth)) > 1e-5 * max(1.0, reach):
            ctx.bump("oracle", "published_kinematics_differ_from_model")      # C05's business; do not judge IK against a wrong model
            model.skip = True
    if getattr(model, "skip", False):
        return
    Mg = model.Mg0
    if not hasattr(model, "B_real"):
        model.B_real = model.B.copy()
    B_real = model.B_real
    model.B = np.eye(4)
    model.S = Sg
    model.M = Mg
    goal = model.pose(gth)
    if case.get("pre_fk") is not None:
        arm.FK(np.array(case["pre_fk"], dtype=float), protect=True)
        ctx.cls("state_outside_limits_before_solve")
    if case["goal_kind"] == "held":
        goal = np.array(arm.getEEPos().gTM(), dtype=float)
        ctx.cls("goal:held_pose")
    if case["goal_kind"].startswith("axis_offset"):
        _, k_ax, d_ax = case["goal_kind"].split(":")
        goal = goal.copy()
        goal[int(k_ax), 3] += float(d_ax)
        ctx.cls("goal:start_pose_shifted_along_one_axis")
    case = dict(case)
    case["_session"] = {"arm": session["arm"], "base": session["base"], "prefix": session["prefix"], "solves": session["solves"], "failing_solve": si}
    beyond = case["goal_kind"] == "beyond"
    if beyond:
        d = gen.rand_unit(np.random.default_rng(case["rseed"]))
        goal = B_real @ se3.rp(goal[:3, :3], d * (1.5 * reach + 1.0 + 10 * pt))
    t0 = None if case["theta0"] is None else np.array(case["theta0"], dtype=float)
    path = case["path"]
    key_path = path + ("" if t0 is not None else ":current")

    sess = case["_session"]

    def solve(start):
        pyrandom.seed(case["rseed"])
        s = None if start is None else start.copy()
        if path == "IK":
            return arm.IK(tm(goal.copy()), s, check=case["check"])
        if path == "constrainedIK":
            return arm.constrainedIK(tm(goal.copy()), s, check=case["check"])
        if path == "free":
            return arm.IK(tm(goal.copy()), s, check=case["check"], protect=True)
        return arm.IKFree(tm(goal.copy()), s, np.array(case["inds"], dtype=int))
    try:
        th, suc = solve(t0)
    except Exception as e:
        import traceback
        if path == "IKFree":
            ctx.bump("ikfree", "raised_" + type(e).__name__)       # not a claim of success or failure; observed only
            return
        ctx.clause("returns")
        ctx.violation("returns", "raises/%s/%s" % (type(e).__name__, path), {"exc": traceback.format_exc()[-500:]}, sess)
        return
    th = np.asarray(th, dtype=float).reshape(-1)
    suc = bool(suc)
    ctx.cls("%s:%s:%s" % (path, case["goal_kind"].split(":")[0], "success" if suc else "fail"))
    T = model.pose(th)
    band = model.in_band(th)

    def coherent(clause, key):
        ctx.clause(clause)
        try:
            ee = arm.getEEPos().gTM()
            last = arm.getJointTransforms()[-1].gTM()
        except Exception as e:
            ctx.violation(clause, key + "/raises/" + type(e).__name__, {"exc": repr(e)[:200]}, sess)
            return None
        sc = max(1.0, float(np.linalg.norm(ee[:3, 3])))
        e = tol.maxabs(ee - last)
        if not (e <= (tol.ABS5 if band else 1e-7) * sc):
            ctx.violation(clause, key, {"err": e, "rot_pos": se3.pose_dist(ee, last)}, sess)
        return ee

    if suc:
        ang, _ = se3.pose_dist(T, goal)
        Vb = se3.log6(se3.inv(T) @ goal)
        Vs = se3.Ad(T) @ Vb
        dp = float(np.linalg.norm(goal[:3, 3] - T[:3, 3]))
        perr = min(float(np.linalg.norm(Vs[3:])), float(np.linalg.norm(Vb[3:])), dp)
        ctx.clause("success.orientation")
        ctx.err("orientation_err_over_tol", ang / rt)
        bslack = 1e-6 * model.n if band else 0.0          # joint values inside the exponential's cut-off band
        # a free solve may return joint values of 1e8 rad: sin/cos(S*theta) then carry eps*|theta| in the library and in the oracle alike
        bslack += 1e-14 * float(np.max(np.abs(th)))
        if ang > rt * (1 + 1e-6) + ANG_SLACK + bslack:
            ctx.violation("success.orientation", "false_success/orientation/" + key_path,
                          {"angle_err": ang, "rot_tol": rt, "pos_tol": pt, "pos_err": perr}, sess)
        ctx.clause("success.position")
        sc = max(1.0, float(np.linalg.norm(goal[:3, 3])))
        if perr > pt * (1 + 1e-6) + 1e-11 * sc + bslack * max(1.0, reach) + ANG_SLACK * max(1.0, reach) * (ang > 0 and ang < 2e-8):
            ctx.violation("success.position", "false_success/position/" + key_path,
                          {"pos_err": perr, "pos_tol": pt, "rot_tol": rt, "angle_err": ang}, sess)
        if path in ("IK", "constrainedIK"):
            ctx.clause("success.in_limits")
            if np.any(th < model.lo - 1e-12) or np.any(th > model.hi + 1e-12):
                ctx.violation("success.in_limits", "outside_limits/" + key_path, {"theta": th, "lo": model.lo, "hi": model.hi}, sess)
        ee = coherent("success.state", "state_incoherent/success/" + key_path)
        if ee is not None:
            ctx.clause("success.state")
            sc = max(1.0, float(np.linalg.norm(T[:3, 3])))
            if tol.maxabs(ee - T) > ((tol.ABS5 if band else 1e-7) + 1e-14 * float(np.max(np.abs(th)))) * sc:
                ctx.violation("success.state", "state_not_solution/" + key_path, {"err": tol.maxabs(ee - T)}, sess)
        if beyond:
            ctx.clause("unreachable")
            ctx.violation("unreachable", "unreachable_reported_reached/" + key_path,
                          {"goal_dist": float(np.linalg.norm((se3.inv(B_real) @ goal)[:3, 3])), "reach_bound": reach}, sess)
    else:
        if beyond:
            ctx.clause("unreachable")
        coherent("failure.coherent", "state_incoherent/failure/" + key_path + (":restarts" if case["check"] else ":norestarts"))

    # local convergence
    if (not beyond and case["goal_kind"] != "held" and not case["goal_kind"].startswith("axis_offset") and case["start_kind"] == "near" and path != "IKFree" and t0 is not None
            and np.all(gth >= model.lo + 0.15) and np.all(gth <= model.hi - 0.15)
            and float(np.max(np.abs(t0 - gth))) <= 0.02 + 1e-12):
        sv = np.linalg.svd(model.jac_space(gth), compute_uv=False)
        if sv.min() >= 0.05 and len(sv) == min(6, model.n) and model.n <= 6:
            ctx.clause("local_convergence")
            if not suc:
                flips = False
                for d in (1e-12, -1e-12):
                    try:
                        _, s2 = solve(t0 + d)
                    except Exception:
                        s2 = False
                    if bool(s2):
                        flips = True
                if flips:
                    ctx.bump("local_convergence", "ill_conditioned")
                else:
                    # mechanism key: a position tolerance below what the logarithm can resolve (rotations under 1.5e-8 rad are
                    # read as "no rotation"; at lever arm |p| that is 1.5e-8 |p| of position) is a finding of its own
                    lever = max(1.0, float(np.linalg.norm(goal[:3, 3])))
                    k = "no_local_convergence/below_log_resolution" if pt < 2e-8 * lever else "no_local_convergence/" + key_path
                    ctx.violation("local_convergence", k,
                                  {"sigma_min": float(sv.min()), "start_dist": float(np.max(np.abs(t0 - gth))), "pos_tol": pt, "rot_tol": rt, "lever": lever}, sess)
        else:
            ctx.cls("local_convergence_skipped_singular_or_redundant")


def run_shard(spec, ctx):
    bm = armlib.load_bm()
    for _ in range(int(spec["n"])):
        case = gen_case(ctx.rng)
        s0 = case["solves"][0]
        nt = any(sv["goal_kind"] != "beyond" and sv["start_kind"] != "current" for sv in case["solves"])
        ctx.cls("session_len:%d" % len(case["solves"]))
        ctx.case({"arm": case["arm"].get("file", case["arm"]["kind"]), "b": gen.quant(case["base"], 1e-6),
                  "solves": [[gen.quant(sv["goal_theta"], 1e-6), sv["start_kind"], sv["pos_tol"], sv["rot_tol"], sv["path"], sv["check"]] for sv in case["solves"]]},
                 nt, sample_every=0,
                 sample={"arm": case["arm"].get("file", case["arm"]["kind"]), "base": case["base"], "prefix": case["prefix"],
                         "solves": [{k: sv[k] for k in ("path", "check", "pos_tol", "rot_tol", "goal_kind", "start_kind")} for sv in case["solves"]]})
        ctx.evaluations += len(case["solves"]) - 1
        run_case(case, ctx, bm)


def replay(case, ctx):
    bm = armlib.load_bm()
    ctx.case("replay", True)
    run_case(case, ctx, bm)
