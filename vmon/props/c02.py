"""C02 - the Numba port computes what the reference Modern Robotics library computes."""
import copy
import importlib.util
import math
import os
import types
import numpy as np

from .. import gen, tol
from ..common import VERIF
from ..oracle import se3

PI = math.pi

META = {
    "level": "exploration",
    "rule": ("for each of the 47 functions common to the port and the vendored modern_robotics 1.1.1 (enumerated by "
             "introspection), typed generators: chains of 1..7 unit revolute/prismatic screws, link frames in SE(3), SPD "
             "spatial inertias (random SPD and physical), joint position/velocity/acceleration/torque vectors, gravity, "
             "tip wrenches, trajectories N=2..12, both time scalings, intRes 1..4, near-SO(3)/SE(3) matrices incl. "
             "det<0, IK starts near and far.  Port and reference receive equal deep copies; results compared recursively "
             "(same structure/shape, |a-b| <= 1e-9 max(1,|b|), 1e-7 for integrated trajectories); port raising where the "
             "reference returns is a violation.  Non-trivial: chain length >= 2 or a non-zero rotation; distinct by "
             "(function, quantised arguments)."),
    "assumptions": ["reference = /verif/vendor/modern_robotics_ref/core.py, sha256 0147b863...b964c7 (checked by setup.sh)",
                    "logarithm inputs restricted to rotation angles <= pi-1e-3 plus exact half turns about coordinate axes: "
                    "closer to a generic half turn the reference itself is ill-conditioned (see C01 fix) and equality is meaningless",
                    "arguments are float64 C-contiguous arrays and Python scalars ('well-typed')"],
}


def load_ref():
    spec = importlib.util.spec_from_file_location("vmon_mr_reference", os.path.join(VERIF, "vendor", "modern_robotics_ref", "core.py"))
    ref = importlib.util.module_from_spec(spec)
    spec.loader.exec_module(ref)
    return ref


def shared_names(mr, ref):
    from numba.core.dispatcher import Dispatcher
    port = set()
    for n, o in vars(mr).items():
        if isinstance(o, types.FunctionType) and o.__module__ == mr.__name__:
            port.add(n)
        elif isinstance(o, Dispatcher) and o.py_func.__module__ == mr.__name__:
            port.add(n)
    refn = {n for n, o in vars(ref).items() if isinstance(o, types.FunctionType)}
    return sorted(port & refn)


TRAJ = {"ForwardDynamicsTrajectory", "SimulateControl", "JointTrajectory", "ScrewTrajectory", "CartesianTrajectory",
        "InverseDynamicsTrajectory"}
HEAVY = {"ForwardDynamicsTrajectory", "SimulateControl", "InverseDynamicsTrajectory", "ComputedTorque", "ForwardDynamics", "MassMatrix"}

# ----------------------------------------------------------------------------- generators


def g_rot(rng, safe=True):
    w = gen.rotvec(rng, gen.ANGLE_SAFE if safe else gen.ANGLE_NAMES)
    return np.ascontiguousarray(se3.exp3(w))


def g_T(rng, safe=True, maxp=10.0):
    return np.ascontiguousarray(se3.rp(g_rot(rng, safe), gen.vec3(rng, maxp)))


def g_chain(rng, nmax=7):
    n = int(rng.integers(1, nmax + 1))
    S = np.ascontiguousarray(gen.screw_axes(rng, n))
    M = g_T(rng, True, 2.0)
    return n, S, M


def g_dyn(rng, nmax=7):
    n = int(rng.integers(1, nmax + 1))
    S = np.ascontiguousarray(gen.screw_axes(rng, n, prismatic_ok=(rng.random() < 0.3)))
    Mlist = [np.ascontiguousarray(se3.rp(se3.exp3(gen.rotvec(rng, ["zero", "generic2", "generic2"])), rng.uniform(-0.5, 0.5, 3)))
             for _ in range(n + 1)]
    Glist = [gen.spd6(rng) for _ in range(n)]
    return n, S, Mlist, Glist


def near_so3(rng):
    R = g_rot(rng, False)
    k = rng.random()
    if k < 0.25:
        return R
    if k < 0.6:
        return R + rng.normal(size=(3, 3)) * 10 ** rng.uniform(-8, -2)
    if k < 0.8:
        return np.ascontiguousarray(R @ np.diag([1.0, 1.0, -1.0]) + rng.normal(size=(3, 3)) * 10 ** rng.uniform(-8, -3))
    return rng.normal(size=(3, 3))


def near_se3(rng):
    T = np.eye(4)
    T[:3, :3] = near_so3(rng)
    T[:3, 3] = gen.vec3(rng, 10.0)
    if rng.random() < 0.4:
        T[3] = np.array([0, 0, 0, 1.0]) + rng.normal(size=4) * 10 ** rng.uniform(-6, -1)
    return np.ascontiguousarray(T)


def g_log_R(rng):
    if rng.random() < 0.08:
        k = int(rng.integers(3))
        d = -np.ones(3)
        d[k] = 1.0
        return np.ascontiguousarray(np.diag(d))
    return g_rot(rng, True)


def gen_args(name, rng, tier):
    nmax = 7
    if name == "NearZero":
        return (float(rng.choice([0.0, 1e-7, -1e-7, 1e-6, -1e-6, np.nextafter(1e-6, 0), 1.1e-6, 1.0, -3.0, 1e-300, float(rng.normal())])),)
    if name == "Normalize":
        k = int(rng.choice([3, 3, 3, 1, 2, 4, 6, 7]))
        v = rng.normal(size=k) * 10 ** rng.uniform(-3, 3)
        return (v,)
    if name in ("RotInv", "MatrixLog3_"):
        return (g_rot(rng, False),)
    if name == "VecToso3":
        return (gen.rotvec(rng) if rng.random() < 0.5 else rng.normal(size=3) * 10,)
    if name in ("so3ToVec", "MatrixExp3"):
        w = gen.rotvec(rng) if name == "MatrixExp3" else rng.normal(size=3) * 10
        return (np.ascontiguousarray(se3.hat3(w)),)
    if name == "AxisAng3":
        w = gen.rotvec(rng, [a for a in gen.ANGLE_NAMES if a != "zero"])
        return (w,)
    if name == "MatrixLog3":
        return (g_log_R(rng),)
    if name == "RpToTrans":
        return (g_rot(rng, False), gen.vec3(rng, 1e3))
    if name in ("TransToRp", "TransInv", "Adjoint"):
        return (g_T(rng, False, 1e3),)
    if name == "VecTose3":
        return (np.concatenate([gen.rotvec(rng), gen.vec3(rng, 1e3)]),)
    if name in ("se3ToVec", "MatrixExp6"):
        return (np.ascontiguousarray(se3.hat6(np.concatenate([gen.rotvec(rng), gen.vec3(rng, 1e3)]))),)
    if name == "ScrewToAxis":
        return (gen.vec3(rng, 10.0), gen.rand_unit(rng), float(rng.choice([0.0, 1.0, rng.normal()])))
    if name == "AxisAng6":
        w = gen.rotvec(rng, [a for a in gen.ANGLE_NAMES if a != "zero"])
        v = gen.vec3(rng, 10.0)
        if rng.random() < 0.2:
            w = np.zeros(3)
            v = gen.rand_unit(rng) * rng.uniform(0.1, 5)
        return (np.concatenate([w, v]),)
    if name == "MatrixLog6":
        return (np.ascontiguousarray(se3.rp(g_log_R(rng), gen.vec3(rng, 1e3))),)
    if name in ("ProjectToSO3", "DistanceToSO3", "TestIfSO3"):
        return (np.ascontiguousarray(near_so3(rng)),)
    if name in ("ProjectToSE3", "DistanceToSE3", "TestIfSE3"):
        return (near_se3(rng),)
    if name in ("FKinBody", "FKinSpace"):
        n, S, M = g_chain(rng)
        return (M, S, rng.uniform(-2 * PI, 2 * PI, n))
    if name in ("JacobianBody", "JacobianSpace"):
        n, S, M = g_chain(rng)
        return (S, rng.uniform(-2 * PI, 2 * PI, n))
    if name in ("IKinBody", "IKinSpace"):
        n, S, M = g_chain(rng)
        S = np.ascontiguousarray(gen.screw_axes(rng, n, prismatic_ok=False))
        th_goal = rng.uniform(-2.5, 2.5, n)
        T = se3.poe_space(M, S, th_goal) if name == "IKinSpace" else np.asarray(M) @ np.linalg.multi_dot(
            [np.eye(4)] + [se3.exp6(S[:, i] * th_goal[i]) for i in range(n)] + [np.eye(4)])
        k = rng.random()
        if k < 0.15:
            th0 = th_goal + rng.normal(size=n) * 10 ** rng.uniform(-7, -3)      # already within one tolerance, maybe not the other
        elif k < 0.6:
            th0 = th_goal + rng.normal(size=n) * 0.05
        elif k < 0.85:
            th0 = th_goal + rng.normal(size=n) * 0.5
        else:
            th0 = rng.uniform(-PI, PI, n)
        if rng.random() < 0.1:
            T = g_T(rng, True, 50.0)           # most likely unreachable
        eomg = float(rng.choice([1e-2, 1e-3, 1e-4, 1e-6]))
        ev = float(rng.choice([1e-2, 1e-3, 1e-4, 1e-6]))
        return (S, M, np.ascontiguousarray(T), th0, eomg, ev)
    if name == "ad":
        return (rng.normal(size=6) * 10 ** rng.uniform(-2, 2),)
    if name in ("InverseDynamics", "ForwardDynamics"):
        n, S, Ml, Gl = g_dyn(rng)
        return (rng.uniform(-PI, PI, n), rng.normal(size=n) * 3, rng.normal(size=n) * 5, rng.normal(size=3) * 9.81,
                rng.normal(size=6) * 10, Ml, Gl, S)
    if name == "MassMatrix":
        n, S, Ml, Gl = g_dyn(rng)
        return (rng.uniform(-PI, PI, n), Ml, Gl, S)
    if name == "VelQuadraticForces":
        n, S, Ml, Gl = g_dyn(rng)
        return (rng.uniform(-PI, PI, n), rng.normal(size=n) * 3, Ml, Gl, S)
    if name == "GravityForces":
        n, S, Ml, Gl = g_dyn(rng)
        return (rng.uniform(-PI, PI, n), rng.normal(size=3) * 9.81, Ml, Gl, S)
    if name == "EndEffectorForces":
        n, S, Ml, Gl = g_dyn(rng)
        return (rng.uniform(-PI, PI, n), rng.normal(size=6) * 10, Ml, Gl, S)
    if name == "EulerStep":
        n = int(rng.integers(1, 8))
        return (rng.normal(size=n), rng.normal(size=n), rng.normal(size=n) * 10, float(10 ** rng.uniform(-4, 0)))
    if name == "InverseDynamicsTrajectory":
        n, S, Ml, Gl = g_dyn(rng, 5)
        N = int(rng.integers(2, 13))
        return (rng.uniform(-PI, PI, (N, n)), rng.normal(size=(N, n)), rng.normal(size=(N, n)), rng.normal(size=3) * 9.81,
                rng.normal(size=(N, 6)), Ml, Gl, S)
    if name == "ForwardDynamicsTrajectory":
        n, S, Ml, Gl = g_dyn(rng, 4)
        N = int(rng.integers(2, 13))
        return (rng.uniform(-1, 1, n), rng.normal(size=n) * 0.5, rng.normal(size=(N, n)) * 2, rng.normal(size=3) * 9.81,
                rng.normal(size=(N, 6)), Ml, Gl, S, float(rng.choice([0.001, 0.01, 0.02])), int(rng.integers(1, 5)))
    if name in ("CubicTimeScaling", "QuinticTimeScaling"):
        Tf = float(rng.uniform(0.1, 10))
        return (Tf, float(rng.uniform(0, Tf)) if rng.random() < 0.8 else float(rng.choice([0.0, Tf, Tf / 2])))
    if name == "JointTrajectory":
        n = int(rng.integers(1, 8))
        return (rng.uniform(-PI, PI, n), rng.uniform(-PI, PI, n), float(rng.uniform(0.1, 10)), int(rng.integers(2, 13)),
                int(rng.choice([3, 5])))
    if name in ("ScrewTrajectory", "CartesianTrajectory"):
        X0 = g_T(rng, True, 10.0)
        rel = se3.rp(g_rot(rng, True) if rng.random() < 0.9 else np.eye(3), gen.vec3(rng, 10.0))
        return (X0, np.ascontiguousarray(X0 @ rel), float(rng.uniform(0.1, 10)), int(rng.integers(2, 13)), int(rng.choice([3, 5])))
    if name == "ComputedTorque":
        n, S, Ml, Gl = g_dyn(rng)
        kk = [float(x) for x in rng.uniform(0, 20, 3)]
        return (rng.uniform(-PI, PI, n), rng.normal(size=n), rng.normal(size=n) * 0.1, rng.normal(size=3) * 9.81, Ml, Gl, S,
                rng.uniform(-PI, PI, n), rng.normal(size=n), rng.normal(size=n), kk[0], kk[1], kk[2])
    if name == "SimulateControl":
        n, S, Ml, Gl = g_dyn(rng, 3)
        N = int(rng.integers(2, 9))
        if rng.random() < 0.3:
            Mt = [m.copy() for m in Ml]
        else:       # the controller's model of the link frames differs from the plant's
            Mt = [np.ascontiguousarray(m @ se3.rp(se3.exp3(rng.normal(size=3) * 0.05), rng.normal(size=3) * 0.02)) for m in Ml]
        Gt = [g * rng.uniform(0.9, 1.1) for g in Gl]
        return (rng.uniform(-1, 1, n), rng.normal(size=n) * 0.2, rng.normal(size=3) * 9.81, rng.normal(size=(N, 6)), Ml, Gl, S,
                rng.uniform(-1, 1, (N, n)), rng.normal(size=(N, n)) * 0.2, rng.normal(size=(N, n)) * 0.2, rng.normal(size=3) * 9.81,
                Mt, Gt, float(rng.uniform(1, 30)), float(rng.uniform(0, 10)), float(rng.uniform(0, 10)),
                float(rng.choice([0.001, 0.01])), int(rng.integers(1, 5)))
    raise KeyError(name)


# ----------------------------------------------------------------------------- comparison
def flat_desc(x):
    if isinstance(x, np.ndarray):
        return ["a", list(x.shape)] + gen.quant(x, 1e-9)[:40]
    if isinstance(x, (list, tuple)):
        return [flat_desc(y) for y in x]
    if isinstance(x, float):
        return gen.quant([x], 1e-12)
    return x


def compare(a, b, rel, path=""):
    """-> (ok, message, err)."""
    if isinstance(b, (tuple, list)):
        if not isinstance(a, (tuple, list)) or len(a) != len(b):
            return False, "%s: structure %s vs %s" % (path, type(a).__name__, type(b).__name__), float("inf")
        worst = 0.0
        for i, (x, y) in enumerate(zip(a, b)):
            ok, msg, e = compare(x, y, rel, path + "[%d]" % i)
            if not ok:
                return ok, msg, e
            worst = max(worst, e)
        return True, "", worst
    if isinstance(b, (bool, np.bool_)):
        ok = isinstance(a, (bool, np.bool_)) and bool(a) == bool(b)
        return ok, "%s: bool %r vs %r" % (path, a, b), 0.0 if ok else float("inf")
    A = np.asarray(a)
    B = np.asarray(b)
    if A.shape != B.shape:
        return False, "%s: shape %s vs %s" % (path, A.shape, B.shape), float("inf")
    if A.dtype == object or B.dtype == object:
        return False, "%s: object array" % path, float("inf")
    A = A.astype(float)
    B = B.astype(float)
    fa, fb = np.isfinite(A), np.isfinite(B)
    if not np.array_equal(fa, fb) or not np.array_equal(A[~fa], B[~fb], equal_nan=True):
        return False, "%s: non-finite pattern differs" % path, float("inf")
    if A.size == 0:
        return True, "", 0.0
    scale = max(1.0, float(np.max(np.abs(B[fb]))) if fb.any() else 1.0)
    e = float(np.max(np.abs(A[fa] - B[fb]))) / scale if fa.any() else 0.0
    return e <= rel, "%s: rel err %.3g > %.3g" % (path, e, rel), e


def has_nan(x):
    if isinstance(x, (list, tuple)):
        return any(has_nan(y) for y in x)
    try:
        return bool(np.any(np.isnan(np.asarray(x, dtype=float))))
    except Exception:
        return False


def perturbed(args, f):
    out = []
    for a in args:
        if isinstance(a, np.ndarray) and a.dtype.kind == "f":
            out.append(a * f)
        elif isinstance(a, list):
            out.append([x * f if isinstance(x, np.ndarray) else x for x in a])
        elif isinstance(a, float):
            out.append(a * f)
        else:
            out.append(a)
    return tuple(out)


def reference_discontinuous(name, args, r_ref, ref, rel):
    """True when the REFERENCE's own answer moves by more than the tolerance under a 1e-13 relative change of the
    input: the input sits on a branch boundary (NearZero cut-off, arccos clipping) and equality is not defined there."""
    for f in (1 + 1e-13, 1 - 1e-13, 1 + 3e-13):
        try:
            r2 = getattr(ref, name)(*copy.deepcopy(perturbed(args, f)))
        except Exception:
            return True
        ok, _, _ = compare(r2, r_ref, rel)
        if not ok:
            return True
    return False


def run_one(name, args, mr, ref):
    a1 = copy.deepcopy(args)
    a2 = copy.deepcopy(args)
    try:
        r_ref = getattr(ref, name)(*a2)
        e_ref = None
    except Exception as e:
        r_ref, e_ref = None, e
    try:
        r_port = getattr(mr, name)(*a1)
        e_port = None
    except Exception as e:
        r_port, e_port = None, e
    return r_port, e_port, r_ref, e_ref


def check_call(name, args, ctx, mr, ref, case):
    r_port, e_port, r_ref, e_ref = run_one(name, args, mr, ref)
    ctx.clause("fn:" + name)
    if e_ref is not None and e_port is not None:
        ctx.bump("invalid_input", name)
        return
    if e_ref is not None:
        ctx.bump("reference_raises_port_returns", name)
        return
    if e_port is not None:
        ctx.violation("raises", "%s/raises/%s" % (name, type(e_port).__name__), {"exc": repr(e_port)[:300]}, case)
        return
    rel = 1e-7 if name in ("ForwardDynamicsTrajectory", "SimulateControl", "JointTrajectory", "ScrewTrajectory",
                           "CartesianTrajectory") else 1e-9
    if name in ("IKinBody", "IKinSpace"):
        check_ik(name, args, r_port, r_ref, ctx, mr, ref, case)
        return
    if has_nan(r_ref) and not has_nan(r_port):
        ctx.bump("reference_returns_nan_port_finite", name)       # the reference failed, not the port
        return
    ok, msg, e = compare(r_port, r_ref, rel)
    if not ok and reference_discontinuous(name, args, r_ref, ref, rel):
        ctx.bump("reference_discontinuous_at_input", name)
        return
    ctx.err(name, e if np.isfinite(e) else 1e300)
    if not ok:
        ctx.violation("value", "%s/value" % name, {"msg": msg}, case)


def check_ik(name, args, r_port, r_ref, ctx, mr, ref, case):
    S, M, T, th0, eomg, ev = args
    try:
        th_p, ok_p = r_port
        th_r, ok_r = r_ref
        th_p = np.asarray(th_p, dtype=float)
    except Exception as e:
        ctx.violation("value", name + "/structure", {"exc": repr(e)}, case)
        return
    if th_p.shape != np.asarray(th_r).shape:
        ctx.violation("value", name + "/shape", {"port": th_p.shape, "ref": np.asarray(th_r).shape}, case)
        return
    ctx.clause("ik.success_meets_tolerance")
    if bool(ok_p):
        ctx.bump("ik", "port_success")
        # documented criterion, evaluated with the REFERENCE FK / log
        if name == "IKinBody":
            Tc = ref.FKinBody(M, S, th_p)
            V = ref.se3ToVec(ref.MatrixLog6(np.dot(ref.TransInv(Tc), T)))
        else:
            Tc = ref.FKinSpace(M, S, th_p)
            V = np.dot(ref.Adjoint(Tc), ref.se3ToVec(ref.MatrixLog6(np.dot(ref.TransInv(Tc), T))))
        eo, el = float(np.linalg.norm(V[:3])), float(np.linalg.norm(V[3:]))
        if eo > eomg * (1 + 1e-6) + 1e-12 or el > ev * (1 + 1e-6) + 1e-12:
            ctx.violation("ik.success_meets_tolerance", name + "/false_success", {"eomg": eomg, "ev": ev, "err_w": eo, "err_v": el}, case)
    def chaotic():
        """the Newton iteration from this start is sensitive: either library's own answer moves under a 1e-12 shift"""
        for d in (1e-12, -1e-12, 1e-11):
            for lib, base_th, base_ok in ((mr, th_p, ok_p), (ref, np.asarray(th_r, dtype=float), ok_r)):
                try:
                    t2, o2 = getattr(lib, name)(S, M, T, th0 + d, eomg, ev)
                except Exception:
                    return True
                if bool(o2) != bool(base_ok) or float(np.max(np.abs(np.asarray(t2) - base_th))) > 1e-7:
                    return True
        return False
    if bool(ok_p) != bool(ok_r):
        # a convergence flag that differs is a value difference unless the iteration is chaotic there
        if chaotic():
            ctx.bump("ik", "ill_conditioned")
            return
        ctx.clause("ik.same_solution")
        ctx.violation("ik.same_solution", name + "/success_flag_differs", {"port": bool(ok_p), "ref": bool(ok_r)}, case)
        return
    if bool(ok_p) and bool(ok_r):
        ctx.clause("ik.same_solution")
        e = float(np.max(np.abs(th_p - np.asarray(th_r))))
        if e > 1e-6 * max(1.0, float(np.max(np.abs(th_r)))):
            if chaotic():
                ctx.bump("ik", "ill_conditioned")
                return
            ctx.violation("ik.same_solution", name + "/different_solution", {"err": e, "port": th_p, "ref": th_r}, case)
    else:
        ctx.bump("ik", "both_fail")


def plan(tier, seed):
    if tier == "quick":
        return [{"per_fn": 40, "per_fn_heavy": 8, "timeout_s": 1800} for _ in range(16)]
    return [{"per_fn": 1500, "per_fn_heavy": 200, "timeout_s": 14400} for _ in range(16)]


def _load():
    from ..worker import import_target
    import_target()
    from ..jitcache import enable_all
    enable_all()
    from basic_robotics.modern_robotics_numba import mr
    return mr, load_ref()


def run_shard(spec, ctx):
    mr, ref = _load()
    names = shared_names(mr, ref)
    ctx.extra["shared_functions"] = len(names)
    if len(names) != 47:
        ctx.inconc("expected 47 shared functions, found %d" % len(names))
    rng = ctx.rng
    for name in names:
        k = spec["per_fn_heavy"] if name in HEAVY else spec["per_fn"]
        if name in ("IKinBody", "IKinSpace"):
            k *= 3
        for _ in range(k):
            args = gen_args(name, rng, ctx.tier)
            case = {"fn": name, "args": args}
            nt = True
            if name in ("NearZero", "CubicTimeScaling", "QuinticTimeScaling", "EulerStep"):
                nt = False
            ctx.case([name, flat_desc(list(args))], nt, sample_every=97)
            check_call(name, args, ctx, mr, ref, case)


def finalize(m, tier, results):
    miss = [c for c in m["clauses"] if False]
    fn_counts = {k[3:]: v for k, v in m["clauses"].items() if k.startswith("fn:")}
    m["extra"]["functions_covered"] = len(fn_counts)
    if len(fn_counts) != 47:
        m["inconclusive"].append("only %d of 47 shared functions were exercised" % len(fn_counts))
    m["extra"]["programs"] = len(fn_counts)


def _revive(x):
    if isinstance(x, list):
        try:
            a = np.array(x, dtype=float)
            if a.dtype != object and a.ndim >= 1 and a.size > 0 and a.ndim <= 2:
                return a
        except Exception:
            pass
        return [_revive(y) for y in x]
    return x


def replay(case, ctx):
    mr, ref = _load()
    name = case["fn"]
    args = []
    for a in case["args"]:
        if isinstance(a, list) and a and isinstance(a[0], list) and a[0] and isinstance(a[0][0], list):
            args.append([np.array(y, dtype=float) for y in a])          # Mlist / Glist
        elif isinstance(a, list):
            args.append(np.ascontiguousarray(np.array(a, dtype=float)))
        else:
            args.append(a)
    ctx.case([name], True)
    check_call(name, tuple(args), ctx, mr, ref, case)
