"""C09 - Stewart platform: IK is exact geometry and FK inverts it."""
import math
import numpy as np

from .. import gen, splib, tol
from ..oracle import se3

PI = math.pi

META = {
    "level": "exploration",
    "rule": ("platform geometries from the JSON (loadSP), parametric (newSP) and direct (SP(...)) constructors inside the property's "
             "ranges (bottom radius 0.2..2, ratio 0.3..1, spacings 5..40 deg, thickness <= 10% radius, min leg 0.8..1.5 radii, stroke "
             "1.5..2x, both handedness values), random base poses; optionally moved to another base and/or re-spun at the neutral "
             "pose.  Per platform: published joints vs the parametric description; IK on arbitrary plate-pose pairs vs joint "
             "distances (protected, and unprotected where the platform then corrects itself: what IK returns stays the geometry); invariance under a common rigid motion; for relative poses inside the workspace that are accepted "
             "without corrective action: reset to neutral, FK(lengths) with both solvers must recover pose and lengths to 1e-3 h.  "
             "Non-trivial: the relative pose has both a lateral offset and a rotation; distinct by quantised (geometry, pose)."),
    "assumptions": ["'accepted without corrective action' is decided from observables: valid flag, empty validation_error, published top "
                    "pose identical to the request",
                    "lateral offset is bounded in norm (20% of the neutral height) as the property words it",
                    "rotation recovered to 1e-3 rad, position and lengths to 1e-3 of the neutral height"],
}
REQUIRED_REACH = ['kinematics/sp_model.py:SP.IK', 'kinematics/sp_model.py:SP.FK', 'kinematics/sp_model.py:SP.spinCustom', 'kinematics/sp_model.py:SP.move', 'kinematics/sp_model.py:newSP', 'kinematics/sp_model.py:loadSP']
REQUIRED_CLASSES = ["unprotected_ik:corrected"]
REQUIRED_CLAUSES = ["geometry", "ik.lengths", "ik.unprotected", "ik.invariance", "ik.published_joints", "fk.recover.mode0", "fk.recover.mode1", "fk.after_move", "fk.after_spin"]


def plan(tier, seed):
    if tier == "quick":
        return [{"n": 40, "poses": 3, "timeout_s": 1800} for _ in range(16)]
    return [{"n": 4000, "poses": 5, "timeout_s": 14400} for _ in range(16)]


def gen_case(rng, nposes):
    g = splib.gen_geometry(rng)
    model = splib.SPModel(g)
    steps = []
    r = rng.random()
    if r < 0.3:
        steps.append({"op": "move", "base": np.concatenate([rng.uniform(-3, 3, 3), gen.rotvec(rng, ["zero", "generic2", "generic"])]).tolist()})
    elif r < 0.6:
        steps.append({"op": "spin", "rot": float(rng.uniform(-PI, PI))})
    elif r < 0.7:
        steps.append({"op": "spin", "rot": float(rng.uniform(-PI, PI))})
        steps.append({"op": "move", "base": np.concatenate([rng.uniform(-3, 3, 3), gen.rotvec(rng, ["generic2"])]).tolist()})
    return {"g": g, "steps": steps,
            "pairs": [[gen.taa(rng, 5.0).tolist(), np.concatenate([rng.uniform(-1, 1, 3) * g["rb"] + [0, 0, 1.5 * g["rb"]], rng.uniform(-0.5, 0.5, 3)]).tolist(),
                       gen.taa(rng, 5.0).tolist()] for _ in range(2)],
            "rels": [splib.gen_rel_pose(rng, model.h).tolist() for _ in range(nposes)] + [tilted_xy(rng, model.h)]}


def tilted_xy(rng, h):
    """A workspace pose tilted about BOTH x and y and pushed to the rim: where a Newton iteration with the wrong orientation
    derivatives stops converging."""
    lat = gen.rand_unit(rng, 2) * rng.uniform(0.14, 0.2) * h
    return [float(lat[0]), float(lat[1]), float(h * (1 + rng.uniform(-0.15, 0.15))),
            float(rng.choice([-1, 1]) * rng.uniform(0.18, 0.3)), float(rng.choice([-1, 1]) * rng.uniform(0.18, 0.3)), float(rng.uniform(-0.3, 0.3))]


def run_case(case, ctx, bm):
    tm = bm["tm"]
    g = case["g"]
    model = splib.SPModel(g)
    h = model.h

    def viol(clause, key, **d):
        ctx.violation(clause, key, d, case)

    try:
        sp = splib.build_sp(g, bm)
    except Exception as e:
        import traceback
        ctx.clause("geometry")
        viol("geometry", "construct/raises/%s/%s" % (type(e).__name__, g["kind"]), exc=traceback.format_exc()[-400:])
        return
    # ---- published geometry at construction ----
    ctx.clause("geometry")
    L0, bs, ts = model.lengths()
    sc = max(1.0, float(np.linalg.norm(model.B[:3, 3])) + 2 * g["rb"] + h)
    e = max(tol.maxabs(np.asarray(sp.getBottomJoints()) - bs), tol.maxabs(np.asarray(sp.getTopJoints()) - ts),
            tol.maxabs(sp.getTopT().gTM() - model.T), tol.maxabs(sp.getBottomT().gTM() - model.B))
    ctx.err("geometry", e)
    if not (e <= 1e-9 * sc):
        viol("geometry", "geometry/" + g["kind"] + ("/left" if g["rot"] == -1 else "/right"), err=e)
        return
    state = "fresh"
    for st in case["steps"]:
        try:
            if st["op"] == "move":
                rel = se3.inv(model.B) @ model.T
                model.B = se3.taa_to_T(st["base"])
                model.T = model.B @ rel
                sp.move(tm(np.array(st["base"], dtype=float)))
                state = "moved" if state == "fresh" else state + "+moved"
            else:
                model.spin(st["rot"])
                sp.spinCustom(st["rot"])
                state = "spun" if state == "fresh" else state + "+spun"
        except Exception as e:
            import traceback
            ctx.clause("returns")
            viol("returns", "raises/%s/%s" % (type(e).__name__, st["op"]), exc=traceback.format_exc()[-400:])
            return
    scb = max(1.0, float(np.linalg.norm(model.B[:3, 3])) + 2 * g["rb"] + h)
    clause_state = "fk.after_spin" if "spun" in state else "fk.after_move" if "moved" in state else None
    # after the steps the published joints must still be the plate poses applied to the plate-fixed coordinates
    ctx.clause("ik.published_joints")
    L0, bs, ts = model.lengths()
    e = max(tol.maxabs(np.asarray(sp.getBottomJoints()) - bs), tol.maxabs(np.asarray(sp.getTopJoints()) - ts),
            tol.maxabs(np.asarray(sp.getLens()).reshape(-1) - L0))
    if not (e <= 1e-9 * scb):
        viol("ik.published_joints", "published_joints/" + state, err=e)
        return
    # ---- IK = geometry, for arbitrary plate pose pairs ----
    for pb, prel, pd in case["pairs"]:
        Bp = se3.taa_to_T(pb)
        Tp = Bp @ se3.taa_to_T(prel)
        D = se3.taa_to_T(pd)
        try:
            L1, _ = sp.IK(top_plate_pos=tm(Tp.copy()), bottom_plate_pos=tm(Bp.copy()), protect=True)
            L1 = np.asarray(L1, dtype=float).reshape(-1)
            pubL = np.asarray(sp.getLens(), dtype=float).reshape(-1)
            pubB, pubT = np.asarray(sp.getBottomJoints()).copy(), np.asarray(sp.getTopJoints()).copy()
            L2, _ = sp.IK(top_plate_pos=tm(D @ Tp), bottom_plate_pos=tm(D @ Bp), protect=True)
            L2 = np.asarray(L2, dtype=float).reshape(-1)
            # the same request without protection: the platform may correct its own state afterwards (leg limits, angles ...), but what
            # IK RETURNS is still the geometry of the requested poses - read now and again after a further call (no aliasing of the state)
            L3o, _ = sp.IK(top_plate_pos=tm(Tp.copy()), bottom_plate_pos=tm(Bp.copy()))
            L3 = np.array(L3o, dtype=float).reshape(-1)
            corrected = sp.validation_error != ""
            sp.IK(top_plate_pos=tm(neutral_now(model)), bottom_plate_pos=tm(model.B.copy()), protect=True)
            L3b = np.array(L3o, dtype=float).reshape(-1)
        except Exception as e:
            import traceback
            ctx.clause("returns")
            viol("returns", "raises/%s/IK" % type(e).__name__, exc=traceback.format_exc()[-400:])
            return
        Lw, bsw, tsw = model.lengths(Bp, Tp)
        scp = max(1.0, float(np.max(Lw)))
        ctx.clause("ik.lengths")
        e = max(tol.maxabs(L1 - Lw), tol.maxabs(pubL - Lw))
        ctx.err("ik.lengths", e / scp)
        if L1.shape != (6,) or not (e <= 1e-9 * scp):
            viol("ik.lengths", "ik_lengths/" + state, err=e, got=L1, want=Lw)
        ctx.clause("ik.published_joints")
        scj = max(1.0, tol.maxabs(bsw), tol.maxabs(tsw))
        if not (tol.maxabs(pubB - bsw) <= 1e-9 * scj and tol.maxabs(pubT - tsw) <= 1e-9 * scj):
            viol("ik.published_joints", "published_joints_after_ik/" + state, err=max(tol.maxabs(pubB - bsw), tol.maxabs(pubT - tsw)))
        ctx.clause("ik.unprotected")
        ctx.cls("unprotected_ik:" + ("corrected" if corrected else "accepted"))
        e = max(tol.maxabs(L3 - Lw), tol.maxabs(L3b - Lw)) if L3.shape == (6,) else float("inf")
        ctx.err("ik.unprotected", e / scp)
        if not (e <= 1e-9 * scp):
            viol("ik.unprotected", "ik_lengths_unprotected/%s/%s" % ("corrected" if corrected else "accepted", "at_return" if tol.maxabs(L3 - Lw) > 1e-9 * scp else "after_next_call"),
                 err=e, got=L3, later=L3b, want=Lw)
        ctx.clause("ik.invariance")
        e = tol.maxabs(L2 - L1)
        ctx.err("ik.invariance", e / scp)
        if not (e <= 1e-9 * scp * max(1.0, float(np.linalg.norm(D[:3, 3])))):
            viol("ik.invariance", "ik_invariance/" + state, err=e)
    # ---- FK inverts IK inside the workspace ----
    neutral = model.B @ model.neutral_rel()
    uninverted = [False]
    _orig_fix = getattr(sp, "_fixUpsideDown", None)
    if _orig_fix is not None:
        def _fix_rec(*a, **k):          # observation only: did the corrective 'un-invert' path run during this FK?
            # ... and was it warranted, i.e. did the solver really leave the top plate below the base (in the base's own frame)?
            try:
                relz = float((se3.inv(sp.getBottomT().gTM()) @ sp.getTopT().gTM())[2, 3])
            except Exception:
                relz = 0.0
            uninverted[0] = "warranted" if relz < 0 else "unwarranted"
            ctx.bump("corrective_paths", "un-invert:" + uninverted[0])
            return _orig_fix(*a, **k)
        sp._fixUpsideDown = _fix_rec
    rels = list(case["rels"])
    bal = balanced_pose(model, g, rels[0])
    if bal is not None:
        rels.append(bal)
        ctx.cls("pose:first_newton_step_sums_to_zero")
    for rel in rels:
        X = model.B @ se3.taa_to_T(rel)
        try:
            sp.IK(top_plate_pos=tm(neutral.copy()), bottom_plate_pos=tm(model.B.copy()), protect=True)
            L, valid = sp.IK(top_plate_pos=tm(X.copy()))
        except Exception as e:
            import traceback
            ctx.clause("returns")
            viol("returns", "raises/%s/IK" % type(e).__name__, exc=traceback.format_exc()[-400:])
            return
        L = np.asarray(L, dtype=float).reshape(-1)
        accepted = bool(valid) and sp.validation_error == "" and tol.maxabs(sp.getTopT().gTM() - X) <= 1e-12 * scb
        if not accepted:
            ctx.cls("workspace_pose_not_accepted")
            continue
        ctx.cls("workspace_pose_accepted")
        Lw, _, _ = model.lengths(model.B, X)
        ctx.clause("ik.lengths")
        if not (tol.maxabs(L - Lw) <= 1e-9 * max(1.0, float(np.max(Lw)))):
            viol("ik.lengths", "ik_lengths/workspace/" + state, err=tol.maxabs(L - Lw))
            continue
        for mode in (0, 1):
            clause = "fk.recover.mode%d" % mode
            try:
                sp.IK(top_plate_pos=tm(neutral.copy()), bottom_plate_pos=tm(model.B.copy()), protect=True)
                uninverted[0] = False
                top, v2 = sp.FK(L.copy(), fk_mode=mode)
                got = top.gTM()
                pub = sp.getTopT().gTM()
                lens = np.asarray(sp.getLens(), dtype=float).reshape(-1)
            except Exception as e:
                import traceback
                ctx.clause(clause)
                viol(clause, "fk_raises/%s/mode%d/%s" % (type(e).__name__, mode, state), exc=traceback.format_exc()[-400:])
                continue
            ctx.clause(clause)
            if clause_state:
                ctx.clause(clause_state)
            ang, dist = se3.pose_dist(got, X)
            ang2, dist2 = se3.pose_dist(pub, X)
            le = tol.maxabs(lens - L)
            ctx.err(clause, max(dist / h, ang, le / h))
            if not (dist <= 1e-3 * h and ang <= 1e-3 and dist2 <= 1e-3 * h and ang2 <= 1e-3 and le <= 1e-3 * h):
                na, nd = se3.pose_dist(pub, neutral)
                where = "reset_to_neutral" if (nd <= 1e-6 * h and na <= 1e-6) else "wrong_pose"
                key = "fk_miss/mode%d/%s/%s/%s" % (mode, state, where, "valid" if v2 else "invalid")
                # two mechanisms with findings of their own (keyed by what happened, not by where):
                Lgot, _, _ = model.lengths(model.B, got)
                if uninverted[0] == "warranted":
                    key = "fk_miss/solver_landed_upside_down_then_un-invert"
                elif uninverted[0] == "unwarranted":
                    key = "fk_miss/un-invert_of_an_upright_solution/" + state
                elif mode == 0 and v2 and tol.maxabs(np.asarray(Lgot).reshape(-1) - L) <= 1e-6 * h and dist2 <= 1e-9 * h + dist and le <= 1e-6 * h:
                    key = "fk_miss/other_assembly_mode"
                viol(clause, key,
                     pos_err_over_h=dist / h, rot_err=ang, len_err_over_h=le / h, published_pos_err_over_h=dist2 / h, rel=rel, state=state, where=where)


def neutral_now(model):
    return (model.B @ model.neutral_rel()).copy()


def balanced_pose(model, g, rel):
    """A relative pose near `rel` for which the FIRST Newton update from the neutral pose has components that cancel (their signed
    sum is ~0): the input class on which a convergence test written on the signed sum stops at once.  The one-iteration update is
    probed with the library's own kernel on the model's plate-fixed joints (input generation only - the verdict stays with the oracle)."""
    try:
        from basic_robotics.general import faser_high_performance as hp
        bjr, tjr = np.ascontiguousarray(np.asarray(model.bj, dtype=float).T), np.ascontiguousarray(np.asarray(model.tj, dtype=float).T)      # as spun so far
        n6 = np.array([0.0, 0.0, model.h, 0.0, 0.0, 0.0])
        r = np.array(rel, dtype=float)

        def ssum(r6):
            L, _, _ = model.lengths(np.eye(4), se3.taa_to_T(r6))
            out, _ = hp.SPFKinSpaceR(np.asarray(L, dtype=float).reshape(6).copy(), n6.copy(), bjr, tjr, 1, 0.0, 0.0, float(g["lmin"]))
            return float(np.sum(np.asarray(out, dtype=float).reshape(6) - n6))
        for _ in range(5):
            s0 = ssum(r)
            if abs(s0) < 2e-7:
                # only the height was searched: keep the pose only if it is still inside the property's workspace (within 15% of neutral)
                return r.tolist() if abs(r[2] / model.h - 1.0) <= 0.15 else None
            r2 = r.copy()
            r2[2] -= s0
            s1 = ssum(r2)
            slope = (s1 - s0) / (-s0) if s0 != 0 else 1.0
            r[2] -= s0 / slope if abs(slope) > 0.2 else s0
        return None
    except Exception:
        return None


def run_shard(spec, ctx):
    bm = splib.load_bm()
    for _ in range(int(spec["n"])):
        case = gen_case(ctx.rng, int(spec["poses"]))
        g = case["g"]
        ctx.cls("kind:" + g["kind"])
        ctx.cls("hand:%d" % g["rot"])
        for st in case["steps"]:
            ctx.cls("step:" + st["op"])
        r0 = np.array(case["rels"][0])
        ctx.case({"g": gen.quant([g["rb"], g["rt"], g["bspace"], g["tspace"], g["lmin"], g["lmax"]], 1e-6), "rel": gen.quant(r0, 1e-6),
                  "steps": [s["op"] for s in case["steps"]]}, bool(np.linalg.norm(r0[:2]) > 0 and np.linalg.norm(r0[3:]) > 0), sample_every=0,
                 sample={"geometry": {k: g[k] for k in ("kind", "rb", "rt", "bspace", "tspace", "bth", "tth", "lmin", "lmax", "rot", "base")}, "steps": case["steps"], "relative_pose": case["rels"][0]})
        try:
            run_case(case, ctx, bm)
        except Exception:
            import traceback
            ctx.violation("harness", "unexpected", {"exc": traceback.format_exc()[-800:]}, case)
    ctx.samples.append({"geometry": {k: g[k] for k in ("kind", "rb", "rt", "bspace", "tspace", "lmin", "lmax", "rot")}, "steps": case["steps"], "rel": case["rels"][0]})


def replay(case, ctx):
    bm = splib.load_bm()
    ctx.case("replay", True)
    run_case(case, ctx, bm)
