"""C10 - Stewart platform state stays coherent and 'valid' means valid over any history."""
import math
import random as pyrandom
import numpy as np

from .. import gen, splib, tol
from ..oracle import se3

PI = math.pi

META = {
    "level": "exploration",
    "rule": ("histories of length <= 25 over {IK in/out of workspace (with and without protect), FK with lengths in/out of the stroke, "
             "both fk modes, reverse FK, move, spinCustom, validate (with and without corrective action), inverseJacobian, "
             "staticForces, carryMassCalc, randomPos} with every subset of the four validation switches, on the geometries of C09.  "
             "After every call the monitor reads both plate poses, both joint sets, the lengths, the relative transform and the "
             "returned validity flag and checks I1 joints = plate pose x plate-fixed coordinates (model; rotated by spinCustom), "
             "I2 lengths = joint distances, I3 relative transform = inv(bottom).top, I4 valid => every enabled constraint holds on "
             "the published state (independent re-evaluation), I5 pure queries leave the plates unchanged, I6 no exception.  "
             "Non-trivial: the history reached a corrective action; distinct by (geometry, switches, operation sequence)."),
    "assumptions": ["constraint margins as the library uses them (1e-4 on the tilt limit, none on leg limits)",
                    "joint deflection is re-evaluated as the angle between the current and the neutral-pose leg direction in the "
                    "respective plate frame, using the model's (spun) plate-fixed coordinates",
                    "a RecursionError or any other exception counts against I6; wall-clock is never a verdict"],
}
REQUIRED_REACH = ['kinematics/sp_model.py:SP.IK', 'kinematics/sp_model.py:SP.FK', 'kinematics/sp_model.py:SP.validate', 'kinematics/sp_model.py:SP.move', 'kinematics/sp_model.py:SP.spinCustom', 'kinematics/sp_model.py:SP.inverseJacobian', 'kinematics/sp_model.py:SP.carryMassCalc']
REQUIRED_CLAUSES = ["I1.joints", "I2.lengths", "I3.relative", "I4.valid_means_valid", "I5.pure_queries", "I6.returns"]


def plan(tier, seed):
    if tier == "quick":
        return [{"n": 20, "timeout_s": 1800} for _ in range(16)]
    return [{"n": 375, "timeout_s": 14400} for _ in range(16)] + [{"mode": "suite", "n": 0, "timeout_s": 3600}]


def gen_history(rng, model, g):
    L = int(rng.integers(3, 26))
    h = model.h
    ops = []
    r0 = rng.random()
    if r0 < 0.4:
        # a tighter joint-deflection limit (public setter), so that in-workspace poses sit on both sides of it; re-spin first in most of
        # them: the deflection is measured against the neutral leg directions of the *current* joint arrangement
        ops.append({"op": "setMaxAngleDev", "rad": float(rng.uniform(0.08, 0.5))})
        if rng.random() < 0.75:
            ops.append({"op": "spin", "rot": float(rng.choice([-1.0, 1.0]) * rng.uniform(0.3, PI))})
        for _ in range(int(rng.integers(3, 7))):
            ops.append({"op": "IK", "rel": splib.gen_rel_pose(rng, h).tolist(), "protect": False})
            ops.append({"op": "validate", "donothing": True})
    elif r0 < 0.6:
        # reach the un-invert path on purpose: stand below the base (mirror image of a workspace pose), then ask FK for those lengths
        for _ in range(int(rng.integers(1, 3))):
            rel = splib.gen_rel_pose(rng, h)
            rel[2] = -rel[2]
            ops.append({"op": "IK", "rel": rel.tolist(), "protect": True})
            ops.append({"op": "FK", "rel_for_lengths": rel.tolist(), "mode": int(rng.integers(2)), "reverse": False, "protect": False})
            ops.append({"op": "getters"})
    for _ in range(L):
        k = gen.pick(rng, ["IK", "IK", "IK_out", "IK_protect", "IK_tilt", "FK", "FK", "FK_out", "FK_out", "FK_out", "FK_reverse", "move", "spin", "validate", "validate_do",
                           "invjac", "static", "carry", "randomPos", "randomPos", "getters"])
        if k in ("IK", "IK_protect"):
            ops.append({"op": "IK", "rel": splib.gen_rel_pose(rng, h).tolist(), "protect": k == "IK_protect"})
        elif k == "IK_out":
            rel = splib.gen_rel_pose(rng, h, scale=float(rng.uniform(1.5, 6.0)))
            if rng.random() < 0.2:
                rel[2] = -abs(rel[2]) * rng.uniform(0.2, 1.0)          # below the base
            ops.append({"op": "IK", "rel": rel.tolist(), "protect": bool(rng.random() < 0.2)})
        elif k == "IK_tilt":
            # compound tilt (axis off the coordinate axes) whose total angle straddles the default plate-rotation limit (60 degrees): the
            # three diagonal entries of the relative rotation and the three rotation-vector components disagree about such a pose
            ax = np.append(gen.rand_unit(rng, 2), rng.uniform(-0.3, 0.3))
            rv = ax / np.linalg.norm(ax) * rng.uniform(0.8, 1.3)
            lat = gen.rand_unit(rng, 2) * rng.uniform(0, 0.1) * h
            ops.append({"op": "IK", "rel": [float(lat[0]), float(lat[1]), float(h * rng.uniform(0.95, 1.25)), float(rv[0]), float(rv[1]), float(rv[2])],
                        "protect": bool(rng.random() < 0.2)})
        elif k in ("FK", "FK_reverse"):
            ops.append({"op": "FK", "rel_for_lengths": splib.gen_rel_pose(rng, h).tolist(), "mode": int(rng.integers(2)), "reverse": k == "FK_reverse",
                        "protect": bool(rng.random() < 0.2)})
        elif k == "FK_out":
            lens = rng.uniform(0.3 * g["lmin"], 1.6 * g["lmax"], 6)
            if rng.random() < 0.5:
                lens = np.full(6, float(rng.choice([0.5 * g["lmin"], 1.3 * g["lmax"]]))) + rng.uniform(-0.01, 0.01, 6)
            ops.append({"op": "FK", "lengths": lens.tolist(), "mode": int(rng.integers(2)), "reverse": False, "protect": bool(rng.random() < 0.2)})
        elif k == "move":
            ops.append({"op": "move", "base": np.concatenate([rng.uniform(-3, 3, 3), gen.rotvec(rng, ["zero", "generic2", "generic"])]).tolist()})
        elif k == "spin":
            ops.append({"op": "spin", "rot": float(rng.uniform(-PI, PI))})
        elif k == "validate":
            ops.append({"op": "validate", "donothing": True})
        elif k == "validate_do":
            ops.append({"op": "validate", "donothing": False})
        elif k == "invjac":
            ops.append({"op": "invjac"})
        elif k == "static":
            ops.append({"op": "static", "W": (rng.normal(size=6) * 30).tolist()})
        elif k == "carry":
            ops.append({"op": "carry", "W": (rng.normal(size=6) * 30).tolist()})
        elif k == "randomPos":
            ops.append({"op": "randomPos", "seed": int(rng.integers(1 << 30))})
        else:
            ops.append({"op": "getters"})
    return ops


def corrective(err):
    out = []
    for tag in ("Rescale", "Boost", "Subract", "Unknown Rescale", "Inversion", "Interior", "Tilt"):
        if tag in err:
            out.append(tag)
    return out


def run_history(case, ctx, bm):
    tm = bm["tm"]
    Wrench = bm["Wrench"]
    g = case["g"]
    model = splib.SPModel(g)
    try:
        sp = splib.build_sp(g, bm)
    except Exception as e:
        import traceback
        ctx.clause("I6.returns")
        ctx.violation("I6.returns", "construct/raises/" + type(e).__name__, {"exc": traceback.format_exc()[-400:]}, case)
        return
    sp.validation_settings = list(case["switches"])
    h = model.h
    neutral_dirs = None

    def leg_dirs_local(Bm, Tm):
        _, bs, ts = model.lengths(Bm, Tm)
        v = ts - bs
        return Bm[:3, :3].T @ v, Tm[:3, :3].T @ (-v)

    def state():
        for nm, t in (("bottom", sp.getBottomT()), ("top", sp.getTopT()), ("relative", sp.getCurrentLocalTransform())):
            sd = tol.tm_sides_differ(t)
            if sd is not None and sd[0] > sd[1]:
                ctx.clause("I3.relative")
                ctx.violation("I3.relative", "published_pose_reads_differently/" + nm, {"err": sd[0], "tol": sd[1]}, case)
        Bm = sp.getBottomT().gTM()
        Tm = sp.getTopT().gTM()
        return Bm, Tm, np.asarray(sp.getBottomJoints(), dtype=float).copy(), np.asarray(sp.getTopJoints(), dtype=float).copy(), \
            np.asarray(sp.getLens(), dtype=float).reshape(-1).copy(), sp.getCurrentLocalTransform().gTM()

    def check(step, opname, valid_flag, pure, before, spun_away=False):
        def viol(clause, key, **d):
            d["step"] = step
            d["after"] = opname
            ctx.violation(clause, key + ("" if "after_un-invert" in key else "/after=" + opname), d, case)
        try:
            Bm, Tm, bjs, tjs, lens, rel = state()
        except Exception as e:
            ctx.clause("I6.returns")
            viol("I6.returns", "getters_raise/" + type(e).__name__, exc=repr(e)[:200])
            return False
        sc = max(1.0, float(np.linalg.norm(Bm[:3, 3])) + float(np.linalg.norm(Tm[:3, 3])) + 2 * g["rb"])
        if not (np.all(np.isfinite(Bm)) and np.all(np.isfinite(Tm)) and np.all(np.isfinite(lens)) and np.all(np.isfinite(rel))):
            ctx.clause("I1.joints")
            viol("I1.joints", "nonfinite_state")
            return False
        ok = True
        _, bs, ts = model.lengths(Bm, Tm)
        ctx.clause("I1.joints")
        e = max(tol.maxabs(bjs - bs), tol.maxabs(tjs - ts))
        if not (e <= 1e-9 * sc):
            # mechanism of the known finding, recognised from the published state alone as well (the hook on the private method is
            # only a second witness): the top joint pattern is a MIRROR image of the plate-fixed one w.r.t. the published top pose
            def chir(P):
                c = P.mean(axis=1, keepdims=True)
                Q = P - c
                return float(sum(np.cross(Q[:, i], Q[:, (i + 1) % 6]) @ Tm[:3, 2] for i in range(6)))
            mirrored = chir(tjs) * chir(ts) < 0
            if mirrored != uninverted[0]:
                ctx.bump("corrective_paths", "un-invert_witnesses_disagree")
            viol("I1.joints", "joints_not_plate_times_local" + ("/after_un-invert" if ((uninverted[0] or mirrored) and not unwarranted[0]) else
                                                                ("/after_unwarranted_un-invert" if unwarranted[0] else "")), err=e,
                 bottom_err=tol.maxabs(bjs - bs), top_err=tol.maxabs(tjs - ts))
            ok = False
        ctx.clause("I2.lengths")
        d = np.linalg.norm(tjs - bjs, axis=0)
        e = tol.maxabs(lens - d)
        if not (e <= 1e-9 * max(1.0, float(np.max(d)))):
            viol("I2.lengths", "lengths_not_joint_distances", err=e, lens=lens, dist=d)
            ok = False
        ctx.clause("I3.relative")
        want = se3.inv(Bm) @ Tm
        e = tol.maxabs(rel - want)
        band = 0.0 < se3.rot_angle(want[:3, :3]) < tol.BAND or 0.0 < se3.rot_angle(rel[:3, :3]) < tol.BAND
        if not (e <= (tol.ABS5 if band else 1e-9) * sc):
            viol("I3.relative", "relative_transform_stale", err=e, rot_pos=se3.pose_dist(rel, want))
            ok = False
        if valid_flag is True:
            ctx.clause("I4.valid_means_valid")
            sw = case["switches"]
            bad = []
            if sw[0] and (np.any(d < g["lmin"] - 1e-9) or np.any(d > g["lmax"] + 1e-9) or np.any(lens < g["lmin"] - 1e-9) or np.any(lens > g["lmax"] + 1e-9)):
                bad.append("leg_limits")
            if sw[1] and want[2, 3] < -1e-9:
                bad.append("top_below_bottom")
            if sw[3] and np.any(np.diag(want[:3, :3]) <= sp.plate_rotation_limit - 1e-4 - 1e-9):
                bad.append("plate_tilt")
            if sw[2]:
                db, dt = leg_dirs_local(Bm, Tm)
                nb, nt = leg_dirs_local(np.eye(4), model.neutral_rel())
                ang = []
                for a, b in ((db, nb), (dt, nt)):
                    c = np.sum(a * b, axis=0) / (np.linalg.norm(a, axis=0) * np.linalg.norm(b, axis=0))
                    ang += list(np.arccos(np.clip(c, -1, 1)))
                if max(ang) > sp.joint_deflection_max + 1e-6:
                    bad.append("joint_deflection")
                    try:
                        extra_d = {"deflection_oracle": [float(x) for x in ang], "deflection_library": np.asarray(sp.getJointAnglesFromNorm(), dtype=float).tolist(),
                                   "deflection_max": float(sp.joint_deflection_max)}
                    except Exception as e:
                        extra_d = {"deflection_library": repr(e)[:100]}
            if bad:
                viol("I4.valid_means_valid", "valid_but_" + "+".join(bad), lens=lens, rel_diag=np.diag(want[:3, :3]), z=want[2, 3],
                     **(extra_d if "joint_deflection" in bad else {}))
                ok = False
        if pure and before is not None:
            ctx.clause("I5.pure_queries")
            if not (np.array_equal(before[0], Bm) and np.array_equal(before[1], Tm)):
                viol("I5.pure_queries", "query_moved_plates", bottom=tol.maxabs(before[0] - Bm), top=tol.maxabs(before[1] - Tm))
                ok = False
        return ok

    model_spun_away = [False]
    uninverted = [False]
    unwarranted = [False]
    _orig_fix = getattr(sp, "_fixUpsideDown", None)

    def _fix_rec(*a, **k):           # observation only: which corrective path ran during this call
        # the known finding is about a WARRANTED un-invert (the solver left the top plate below the base, in the base's frame)
        try:
            relz = float((se3.inv(sp.getBottomT().gTM()) @ sp.getTopT().gTM())[2, 3])
        except Exception:
            relz = -1.0
        uninverted[0] = relz < 0
        unwarranted[0] = not (relz < 0)
        ctx.bump("corrective_paths", "un-invert" if relz < 0 else "un-invert_unwarranted")
        return _orig_fix(*a, **k)
    if _orig_fix is not None:
        sp._fixUpsideDown = _fix_rec
    for step, op in enumerate(case["ops"]):
        uninverted[0] = False
        unwarranted[0] = False
        k = op["op"]
        valid_flag = None
        pure = k in ("invjac", "static", "carry", "getters") or (k == "validate" and op.get("donothing"))
        before = None
        try:
            if pure:
                before = state()
            Bm = sp.getBottomT().gTM()
            sp.validation_error = ""
            if k == "IK":
                X = Bm @ se3.taa_to_T(op["rel"])
                _, valid_flag = sp.IK(top_plate_pos=tm(X), protect=op["protect"])
                if op["protect"]:
                    valid_flag = None          # the caller bypassed validation: no verdict was given
            elif k == "FK":
                if "lengths" in op:
                    Lr = np.array(op["lengths"], dtype=float)
                else:
                    Lr, _, _ = model.lengths(np.eye(4), se3.taa_to_T(op["rel_for_lengths"]))
                _, valid_flag = sp.FK(Lr.copy(), reverse=op["reverse"], protect=op["protect"], fk_mode=op["mode"])
                if op["protect"]:
                    valid_flag = None
            elif k == "move":
                sp.move(tm(np.array(op["base"], dtype=float)))
            elif k == "spin":
                rel_now = se3.inv(sp.getBottomT().gTM()) @ sp.getTopT().gTM()
                at_neutral = tol.maxabs(rel_now[:3, :3] - np.eye(3)) < 1e-9 and float(np.linalg.norm(rel_now[:2, 3])) < 1e-9 * h
                if not at_neutral:
                    model_spun_away[0] = True
                model.spin(op["rot"])
                sp.spinCustom(op["rot"])
            elif k == "setMaxAngleDev":
                sp.setMaxAngleDev(op["rad"], degrees=False)
                ctx.cls("limits:tight_joint_deflection")
            elif k == "validate":
                valid_flag = sp.validate(op["donothing"])
            elif k == "invjac":
                sp.inverseJacobian()
            elif k == "static":
                sp.staticForces(Wrench(np.array(op["W"], dtype=float).reshape((6, 1))))
            elif k == "carry":
                sp.carryMassCalc(Wrench(np.array(op["W"], dtype=float).reshape((6, 1))))
            elif k == "randomPos":
                np.random.seed(op["seed"] % (2 ** 32))
                pyrandom.seed(op["seed"])
                sp.randomPos()
            else:
                sp.getLens(), sp.getTopT(), sp.getBottomT(), sp.getActuatorLoc(2, "t"), sp.getJointAnglesFromVertical()
        except BaseException as e:
            import traceback
            ctx.clause("I6.returns")
            sub = k + (":mode%d" % op["mode"] if k == "FK" else "") + (":out_of_stroke" if "lengths" in op else "") + (":reverse" if op.get("reverse") else "")
            ctx.violation("I6.returns", "raises/%s/op=%s" % (type(e).__name__, sub), {"exc": traceback.format_exc()[-600:], "step": step}, case)
            return
        ctx.clause("I6.returns")
        for c in corrective(sp.validation_error):
            ctx.bump("corrective_paths", c)
            case["_corrective"] = True
        sub = k + (":mode%d" % op["mode"] if k == "FK" else "") + (":out_of_stroke" if "lengths" in op else "") + (":reverse" if op.get("reverse") else "") + \
            (":protect" if op.get("protect") else "")
        if not check(step, sub, bool(valid_flag) if valid_flag is not None else None, pure, before):
            return


def run_shard(spec, ctx):
    if spec.get("mode") == "suite":
        from ..worker import import_target
        from ..suite import run_under_monitors
        import_target()
        run_under_monitors(ctx, "C10", timeout_s=spec["timeout_s"] - 120)
        return
    bm = splib.load_bm()
    rng = ctx.rng
    for _ in range(int(spec["n"])):
        g = splib.gen_geometry(rng)
        model = splib.SPModel(g)
        sw = [int(x) for x in rng.integers(0, 2, 4)]
        if rng.random() < 0.25:
            sw = [1, 0, 0, 1]
        case = {"g": g, "switches": sw, "ops": gen_history(rng, model, g)}
        if case["ops"] and case["ops"][0]["op"] == "setMaxAngleDev":
            sw[2] = 1           # a deflection limit is only a constraint while its switch is on
            sw[0] = int(rng.random() < 0.3)      # and fewer leg-limit corrections in the way
        ctx.cls("switches:" + "".join(map(str, sw)))
        try:
            run_history(case, ctx, bm)
        except Exception:
            import traceback
            ctx.violation("harness", "unexpected", {"exc": traceback.format_exc()[-800:]}, case)
        ctx.case({"g": gen.quant([g["rb"], g["rt"], g["lmin"], g["lmax"]], 1e-6), "sw": sw, "ops": [o["op"] + str(o.get("mode", "")) for o in case["ops"]]},
                 bool(case.get("_corrective")), sample_every=0)
    ctx.samples.append({"switches": sw, "ops": [o["op"] for o in case["ops"]]})


def replay(case, ctx):
    if "suite_test" in case:
        from ..suite import run_under_monitors
        run_under_monitors(ctx, "C10", select=[case["suite_test"]])
        return
    bm = splib.load_bm()
    ctx.case("replay", True)
    run_history(case, ctx, bm)
