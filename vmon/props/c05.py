"""C05 - Arm FK is base * PoE * tool through any history (reference model in lock-step)."""
import math
import random as pyrandom
import numpy as np

from .. import armlib, gen, tol
from ..oracle import se3

PI = math.pi

META = {
    "level": "exploration",
    "rule": ("arms: the five bundled URDF models, the 6R test arm, random 1..7-joint revolute chains, each constructed at "
             "identity or at a random base (URDF arms: loaded, then moved).  Histories of length <= 10 over {FK, IK "
             "limit-respecting / free / with and without restarts, move, move(stationary), setArbitraryHome (with and "
             "without joint argument), restoreOriginalEE, randomPos}; joint vectors in [-2pi,2pi]^n with mass on the "
             "limits.  A reference model (B, S, M, M_original, joint home frames, limits, theta) is driven in lock-step; "
             "after every step the monitor reads the return value, getEEPos, getBasePos, getJointTransforms, "
             "jacobian() and jacobianBody() with default arguments and compares with the model (1e-7).  Non-trivial: a "
             "base or tool change is followed by a kinematic call; distinct by (arm, base, operation sequence)."),
    "assumptions": ["tool changes persist across base moves (a move is not a tool-frame change)",
                    "stored joint state after IK: limit-respecting path = returned solution on success, zero vector after "
                    "failed restarts, unchanged when restarts are disabled; free path = returned vector (read via a "
                    "recording wrapper around Arm.IK, needed for move(stationary))",
                    "fresh arrays are passed to every call (FK documentedly clamps and keeps its argument)",
                    "joint values in (0, 2e-6) are never generated (exponential cut-off band); if a solver returns one "
                    "the tolerance is 5e-6"],
}
REQUIRED_REACH = ['kinematics/arm_model.py:Arm.FK', 'kinematics/arm_model.py:Arm.IK', 'kinematics/arm_model.py:Arm.move', 'kinematics/arm_model.py:Arm.setArbitraryHome', 'kinematics/arm_model.py:Arm.restoreOriginalEE', 'kinematics/arm_model.py:Arm.randomPos', 'kinematics/arm_model.py:Arm.getJointTransforms', 'kinematics/arm_model.py:loadArmFromURDF']
REQUIRED_CLAUSES = ["a.fk_value", "b.eepos", "c.base", "d.joint_frames", "d.tool_is_last", "e.jacobian", "e.jacobian_body", "f.after_query"]


def plan(tier, seed):
    if tier == "quick":
        return [{"n": 120, "timeout_s": 1800} for _ in range(16)]
    return [{"n": 10000, "timeout_s": 14400} for _ in range(16)] + [{"mode": "suite", "n": 0, "timeout_s": 3600}]


def gen_history(rng, model):
    L = int(rng.integers(2, 11))
    ops = []
    if rng.random() < 0.15:
        # tool change, then base moves, then kinematics: the order in which frame bookkeeping errors accumulate
        ops.append({"op": "setArbitraryHome", "rel": np.concatenate([rng.uniform(-0.5, 0.5, 3), gen.rotvec(rng, ["generic2", "generic"])]).tolist(), "theta": None})
        ops.append({"op": "move", "base": armlib.random_base(rng, 0.0), "stationary": False})
        ops.append({"op": "move", "base": armlib.random_base(rng, 0.0), "stationary": False})
        L = max(1, L - 3)
    for _ in range(L):
        k = gen.pick(rng, ["FK", "FK", "FK", "IK", "IK", "move", "move", "move_stationary", "setHome", "setHome", "restore", "randomPos"])
        if k == "FK":
            th, kind = armlib.gen_theta(rng, model)
            ops.append({"op": "FK", "theta": th.tolist(), "kind": kind})
        elif k == "IK":
            gth, _ = armlib.gen_theta(rng, model, "inside")
            mode = gen.pick(rng, ["near", "near", "far", "current"])
            if mode == "near":
                t0 = (gth + rng.normal(size=model.n) * 0.02).tolist()
            elif mode == "far":
                t0 = rng.uniform(model.lo, model.hi).tolist()
            else:
                t0 = None
            ops.append({"op": "IK", "goal_theta": gth.tolist(), "theta0": t0, "protect": bool(rng.random() < 0.4),
                        "check": bool(rng.random() < 0.7), "unreachable": bool(rng.random() < 0.15)})
        elif k in ("move", "move_stationary"):
            ops.append({"op": "move", "base": armlib.random_base(rng, 0.1), "stationary": k == "move_stationary"})
        elif k == "setHome":
            rel = np.concatenate([rng.uniform(-0.5, 0.5, 3), gen.rotvec(rng, ["zero", "generic2", "generic"])]).tolist()
            th = armlib.gen_theta(rng, model)[0].tolist() if rng.random() < 0.4 else None
            ops.append({"op": "setArbitraryHome", "rel": rel, "theta": th})
        elif k == "restore":
            ops.append({"op": "restoreOriginalEE"})
        else:
            ops.append({"op": "randomPos", "seed": int(rng.integers(1 << 30))})
    return ops


def nontrivial(ops):
    seen = False
    for o in ops:
        if o["op"] in ("move", "setArbitraryHome", "restoreOriginalEE"):
            seen = True
        elif seen and o["op"] in ("FK", "IK", "randomPos"):
            return True
    return False


def run_history(desc, base, ops, ctx, bm, construct="at_base"):
    hist = {"arm": desc if desc["kind"] != "random" else desc, "base": base, "ops": ops, "construct": construct}
    tm = bm["tm"]
    model = armlib.ArmModel(desc, base)
    try:
        if construct == "identity_then_move" and desc["kind"] != "urdf":
            arm = armlib.build_arm(desc, [0.0] * 6, bm)
            arm.move(tm(np.array(base, dtype=float)))
        else:
            arm = armlib.build_arm(desc, base, bm)
    except Exception as e:
        ctx.clause("construct")
        ctx.violation("construct", "construct/raises/%s" % type(e).__name__, {"exc": repr(e)[:300]}, hist)
        return
    ik_log = []
    orig_IK = arm.IK

    def IK_rec(*a, **k):
        r = orig_IK(*a, **k)
        ik_log.append(r)
        return r
    arm.IK = IK_rec

    # a tool frame defined while a joint value sat in the cut-off band, or at joint values of 1e9 rad left by a diverged free solve,
    # carries that evaluation error in the home pose from then on (until restoreOriginalEE)
    baked = [0.0]

    def extra_now():
        big = float(np.max(np.abs(model.theta))) if model.n and model.theta_known else 0.0
        # a diverged free IK can leave joint values of 1e10 rad: sin/cos of S*theta then carry eps*|theta| of error
        return (2e-6 * model.n if model.in_band() else 0.0) + 1e-14 * big

    def in_band():
        return model.in_band() or baked[0] >= 1e-6

    def ptol(T):
        sc = max(1.0, float(np.linalg.norm(T[:3, 3])))
        return (1e-7 + max(extra_now(), baked[0])) * sc

    def cmp_pose(clause, key, got_tm, want, step):
        ctx.clause(clause)
        try:
            G = got_tm.gTM()
        except Exception as e:
            ctx.violation(clause, key + "/unreadable", {"exc": repr(e)[:200], "step": step}, hist)
            return False
        sd = tol.tm_sides_differ(got_tm)
        if sd is not None and sd[0] > sd[1]:
            ctx.violation(clause, key + "/six_vector_is_another_pose", {"err": sd[0], "tol": sd[1], "step": step}, hist)
            return False
        t = ptol(want)
        e = tol.maxabs(G - want)
        ctx.err(clause, e)
        if not (e <= t):
            ang, dist = se3.pose_dist(G, want) if np.all(np.isfinite(G)) else (float("nan"), float("nan"))
            ctx.violation(clause, key, {"err": e, "tol": t, "rot_err": ang, "pos_err": dist, "step": step}, hist)
            return False
        return True

    def check_state(step, after):
        if not model.theta_known:
            return
        T = model.pose()
        ok = cmp_pose("b.eepos", "eepos/after=" + after, arm.getEEPos(), T, step)
        cmp_pose("c.base", "base/after=" + after, arm.getBasePos(), model.B, step)
        try:
            jt = arm.getJointTransforms()
        except Exception as e:
            ctx.clause("d.joint_frames")
            ctx.violation("d.joint_frames", "joint_frames/raises/%s/after=%s" % (type(e).__name__, after), {"exc": repr(e)[:300], "step": step}, hist)
            jt = None
        if jt is not None:
            cmp_pose("d.joint_frames", "first_is_base/after=" + after, jt[0], model.B @ model.base_offset, step)
            cmp_pose("d.tool_is_last", "tool_is_last/after=" + after, jt[-1], T, step)
            if len(jt) < model.n + 1:
                ctx.violation("d.joint_frames", "joint_frames/count/after=" + after, {"len": len(jt), "n": model.n}, hist)
            else:
                for i in range(model.n - 1):
                    if not cmp_pose("d.joint_frames", "joint_frame/after=" + after, jt[i + 1], model.joint_frame(i), step):
                        break
        for clause, fn, want in (("e.jacobian", arm.jacobian, model.jac_space()), ("e.jacobian_body", arm.jacobianBody, model.jac_body())):
            ctx.clause(clause)
            try:
                J = np.asarray(fn(), dtype=float)
            except Exception as e:
                ctx.violation(clause, clause + "/raises/%s/after=%s" % (type(e).__name__, after), {"exc": repr(e)[:300], "step": step}, hist)
                continue
            sc = max(1.0, tol.maxabs(want))
            t = (1e-6 + max(extra_now(), baked[0]) * 10) * sc
            if J.shape != want.shape or tol.maxabs(J - want) > t:
                ctx.violation(clause, clause + "/after=" + after, {"err": tol.maxabs(J - want) if J.shape == want.shape else None,
                                                                   "tol": t, "step": step}, hist)

    def adopt_after_failure(candidates):
        """The property does not say WHICH coherent state a failed solve leaves (the entry state, the clamped zero vector, the last
        iterate ...): take the candidate whose pose the arm reports; the stored vector itself is read as a last resort; if nothing
        explains the reported pose the joint state is unknown until the next FK (coherence after failures is C07's clause)."""
        cands = [np.asarray(c, dtype=float).reshape(-1) for i, c in enumerate(candidates) if c is not None and (i > 0 or model.theta_known)]
        st = getattr(arm, "_theta", None)
        if st is not None:
            cands.append(np.asarray(st, dtype=float).reshape(-1))
        try:
            G = arm.getEEPos().gTM()
        except Exception:
            model.theta_known = False
            return
        for c in cands:
            if c.shape == (model.n,) and np.all(np.isfinite(c)):
                cc = model.clamp(c)
                for v in (c, cc):
                    T = model.pose(v)
                    if tol.maxabs(G - T) <= 1e-6 * max(1.0, float(np.linalg.norm(T[:3, 3]))):
                        model.theta = v.copy()
                        model.theta_known = True
                        return
        model.theta_known = False
        ctx.cls("joint_state_unknown_after_failed_ik")

    def check_queries(step, after):
        """Queries with defaulted joint arguments refer to the current state and leave the reported poses alone."""
        if not model.theta_known or np.any(model.clamp(model.theta) != model.theta):
            return      # a free-IK state outside the limits: any query that evaluates FK clamps it (the property's own rule)
        T = model.pose()
        qd = np.linspace(-1.0, 1.0, model.n)
        for name, fn in (("jacobianEETrans", lambda: arm.jacobianEETrans()), ("numericalJacobian", lambda: arm.numericalJacobian()),
                         ("jacobianLink", lambda: arm.jacobianLink(model.n - 1)), ("velocityAtEndEffector", lambda: arm.velocityAtEndEffector(qd)),
                         ("getManipulability", lambda: arm.getManipulability()), ("jacobian", lambda: arm.jacobian()),
                         ("jacobianBody", lambda: arm.jacobianBody()), ("getJointTransforms", lambda: arm.getJointTransforms())):
            try:
                fn()
            except Exception as e:
                ctx.bump("query_raised", name + ":" + type(e).__name__)
                continue
            if not cmp_pose("f.after_query", "eepos_changed_by_query/" + name, arm.getEEPos(), T, step):
                return

    check_state(-1, "construct:" + construct)
    check_queries(-1, "construct")
    for step, op in enumerate(ops):
        k = op["op"]
        try:
            if k == "FK":
                th = np.array(op["theta"], dtype=float)
                model.theta = model.clamp(th)
                model.theta_known = True
                ret = arm.FK(th.copy())
                ctx.cls("theta:" + op.get("kind", "?"))
                cmp_pose("a.fk_value", "fk_value/" + ("clamped" if np.any(model.theta != th) else "inside"), ret, model.pose(), step)
            elif k == "IK":
                goal = model.pose(np.array(op["goal_theta"], dtype=float))
                if op.get("unreachable"):
                    goal = goal @ se3.rp(np.eye(3), [10 * model.reach_bound() + 10, 0, 0])
                t0 = None if op["theta0"] is None else np.array(op["theta0"], dtype=float)
                pyrandom.seed(1234 + step)
                th_ret, suc = arm.IK(tm(goal.copy()), t0, check=op["check"], protect=op["protect"])
                th_ret = np.asarray(th_ret, dtype=float).reshape(-1)
                ctx.cls("ik:%s:%s" % ("free" if op["protect"] else "limits", "success" if suc else "fail"))
                if op["protect"]:
                    model.theta = th_ret.copy()
                    if model.n == 1 and abs(model.theta[0]) > 2 * PI:
                        # the stored state is angleMod(returned): for a 1-element vector that is a NEW array (for n > 1 the
                        # wrap is in place and the returned vector IS the stored one)
                        model.theta = model.theta % (2 * PI)
                elif suc:
                    model.theta = th_ret.copy()
                else:
                    adopt_after_failure([model.theta, np.zeros(model.n), th_ret])
            elif k == "move":
                newB = se3.taa_to_T(op["base"])
                model.B = newB
                n0 = len(ik_log)
                pyrandom.seed(4321 + step)
                arm.move(tm(np.array(op["base"], dtype=float)), stationary=op["stationary"])
                if not op["stationary"]:
                    model.theta = model.clamp(model.theta)      # move re-evaluates FK, which clamps (only matters after a free IK)
                if op["stationary"]:
                    if len(ik_log) > n0:
                        th_ret, suc = ik_log[-1]
                        if suc:
                            model.theta = np.asarray(th_ret, dtype=float).reshape(-1).copy()
                        else:
                            adopt_after_failure([model.theta, np.zeros(model.n), np.asarray(th_ret, dtype=float).reshape(-1)])
                        ctx.cls("move_stationary:" + ("success" if suc else "fail"))
                    else:
                        model.theta_known = False
            elif k == "setArbitraryHome":
                if op["theta"] is not None:
                    th = np.array(op["theta"], dtype=float)
                    model.theta = model.clamp(th)
                    arg = th.copy()
                else:
                    arg = None
                if extra_now() > 0:
                    baked[0] = max(baked[0], extra_now())
                    ctx.cls("tool_defined_inside_cutoff_band" if model.in_band() else "tool_defined_at_huge_joint_values")
                ee_now = model.pose()
                new_home_global = ee_now @ se3.taa_to_T(op["rel"])
                model.M = model.M @ se3.taa_to_T(op["rel"])
                arm.setArbitraryHome(tm(new_home_global.copy()), arg)
            elif k == "restoreOriginalEE":
                model.M = model.M0.copy()
                baked[0] = 0.0
                arm.restoreOriginalEE()
            elif k == "randomPos":
                pyrandom.seed(op["seed"])
                th = np.array([pyrandom.uniform(model.lo[j], model.hi[j]) for j in range(model.n)])
                model.theta = model.clamp(th)
                pyrandom.seed(op["seed"])
                ret = arm.randomPos()
                cmp_pose("a.fk_value", "randompos_value", ret, model.pose(), step)
        except Exception as e:
            import traceback
            ctx.clause("returns")
            ctx.violation("returns", "raises/%s/op=%s" % (type(e).__name__, k), {"exc": traceback.format_exc()[-500:], "step": step}, hist)
            return
        sub = k + (":stationary" if op.get("stationary") else "") + (":free" if op.get("protect") else "") + \
            (":with_theta" if k == "setArbitraryHome" and op.get("theta") is not None else "")
        check_state(step, sub)
        if step % 3 == 2 or step == len(ops) - 1:
            check_queries(step, sub)


def pick_arm(rng):
    r = rng.random()
    if r < 0.3:
        return armlib.urdf_desc(gen.pick(rng, armlib.URDFS))
    if r < 0.45:
        return armlib.test6r_desc()
    return armlib.random_desc(rng)


def run_shard(spec, ctx):
    if spec.get("mode") == "suite":
        from ..worker import import_target
        from ..suite import run_under_monitors
        import_target()
        run_under_monitors(ctx, "C05", timeout_s=spec["timeout_s"] - 120)
        return
    bm = armlib.load_bm()
    rng = ctx.rng
    for _ in range(int(spec["n"])):
        desc = pick_arm(rng)
        base = armlib.random_base(rng, 0.3)
        model = armlib.ArmModel(desc, base)
        ops = gen_history(rng, model)
        construct = "at_base" if rng.random() < 0.6 else "identity_then_move"
        ctx.cls("arm:" + desc["kind"])
        ctx.cls("construct:" + construct + (":identity" if not np.any(np.asarray(base)) else ":moved_base"))
        ctx.case({"arm": desc.get("file", desc["kind"]), "S": gen.quant(desc.get("S", []), 1e-6)[:12], "base": gen.quant(base, 1e-6),
                  "ops": [o["op"] + str(o.get("stationary", "")) + str(o.get("protect", "")) for o in ops]}, nontrivial(ops), sample_every=0,
                 sample={"arm": desc.get("file", desc["kind"]), "joints": model.n, "base": base, "construct": construct, "ops": ops[:4]})
        run_history(desc, base, ops, ctx, bm, construct)
        if ctx.out_of_time():
            break
    ctx.samples.append({"arm": desc.get("file", desc["kind"]), "base": base, "ops": [o["op"] for o in ops]})


def replay(case, ctx):
    if "suite_test" in case:
        from ..suite import run_under_monitors
        run_under_monitors(ctx, "C05", select=[case["suite_test"]])
        return
    bm = armlib.load_bm()
    ctx.case(case.get("ops"), True)
    run_history(case["arm"], case["base"], case["ops"], ctx, bm, case.get("construct", "at_base"))
