"""C15 - RRTStar.obstruction == exact closed segment/box intersection."""
import itertools
import numpy as np

from ..oracle import segbox

META = {
    "level": "exploration",
    "rule": ("lattice part: segments with both end points in {-3..3}^3 against boxes with integer corners lo<=hi in "
             "{-2..2}^3 (3375 boxes, flat ones included), decided exactly by rational slab clipping; thorough = the "
             "full product (exhaustive), quick = all boxes x seeded segments + all segments x seeded boxes + "
             "adversarial classes.  Float part: segments/boxes in [-10,10]^3 kept only when the exact answer is "
             "unchanged by growing/shrinking the box by 1e-9; box sets of 0..5 boxes (oracle: any).  Non-trivial: "
             "the segment's bounding box overlaps the box (the three coordinate-axis tests cannot decide alone) "
             "- counted per distinct (segment, box) pair."),
    "assumptions": ["oracle: parametric slab clipping in exact integer/rational arithmetic (vmon/oracle/segbox.py), "
                    "self-checked against brute-force rational sampling",
                    "boxes are registered through the public addObstruction(lo, hi) with lo <= hi component-wise"],
}
REQUIRED_REACH = ['path_planning/pathplanner.py:RRTStar.obstruction', 'path_planning/pathplanner.py:RRTStar.addObstruction']
REQUIRED_CLAUSES = ["lattice", "float", "sets", "instances"]

PTS = np.array(list(itertools.product(range(-3, 4), repeat=3)), dtype=np.int64)          # 343
_PAIRS = [(l, h) for l in range(-2, 3) for h in range(l, 3)]                              # 15
BOXES = np.array([[[a[0], b[0], c[0]], [a[1], b[1], c[1]]] for a in _PAIRS for b in _PAIRS for c in _PAIRS],
                 dtype=np.int64)                                                          # 3375 x 2 x 3
NSEG = len(PTS) * len(PTS)


def plan(tier, seed):
    if tier == "quick":
        return [{"mode": "quick", "nsh": 8, "timeout_s": 1200} for _ in range(8)]
    # thorough: 343 start points split over 49 shards of 7 start points (x all 343 end points x 3375 boxes)
    specs = [{"mode": "full", "starts": list(range(i, min(i + 7, 343))), "timeout_s": 7200} for i in range(0, 343, 7)]
    specs.append({"mode": "quick", "nsh": 1, "timeout_s": 3600, "scale": 6})
    return specs


def classify(a, b, lo, hi, expected):
    a, b, lo, hi = map(lambda x: np.asarray(x, dtype=float), (a, b, lo, hi))
    d = b - a
    if not d.any():
        kind = "zero_length"
    elif np.count_nonzero(d) == 1:
        kind = "axis_parallel"
    else:
        kind = "oblique"
    inside = lambda p: bool(np.all(p >= lo) and np.all(p <= hi))
    if inside(a) and inside(b):
        rel = "contained"
    elif expected:
        eps = 1e-7
        shr = segbox.hit_exact(a.tolist(), b.tolist(), (lo + eps).tolist(), (hi - eps).tolist()) if np.all(hi - lo > 2 * eps) else False
        rel = "piercing" if shr else "touching"
    else:
        rel = "miss"
    return kind + "/" + rel


def run_shard(spec, ctx):
    from ..worker import import_target
    import_target()
    from basic_robotics.general import tm
    from basic_robotics.path_planning.pathplanner import RRTStar, PathNode
    import random
    if segbox.selfcheck(400, ctx.seed) != 0:
        ctx.inconc("segbox oracle self-check failed")
        return
    planner = RRTStar(tm())
    nodes = [PathNode(tm([float(p[0]), float(p[1]), float(p[2]), 0, 0, 0])) for p in PTS]
    for bx in BOXES:
        planner.addObstruction([float(x) for x in bx[0]], [float(x) for x in bx[1]])
    entries = list(planner.obstructions)
    planner.obstructions = []
    ctx.clause("empty_set")
    if planner.obstruction(nodes[0], nodes[5]) is not False:
        ctx.violation("sets", "FP/empty_set", {}, {"a": PTS[0], "b": PTS[5], "boxes": []})
    obstruction = planner.obstruction

    def report(ai, bi, bxi, got, exp):
        a, b, lo, hi = PTS[ai], PTS[bi], BOXES[bxi][0], BOXES[bxi][1]
        ctx.violation("lattice", ("FN/" if exp else "FP/") + classify(a, b, lo, hi, exp),
                      {"got": bool(got), "expected": bool(exp)},
                      {"kind": "lattice", "a": a.tolist(), "b": b.tolist(), "lo": lo.tolist(), "hi": hi.tolist()})

    def nontrivial_mask(A, B, lo, hi):
        smin = np.minimum(A, B)
        smax = np.maximum(A, B)
        return np.all((smin <= hi) & (smax >= lo), axis=-1)

    def sweep(ai_list, bi_list, bxi):
        """all (a, b) in ai_list x bi_list against box bxi"""
        planner.obstructions = [entries[bxi]]
        got = np.empty((len(ai_list), len(bi_list)), dtype=bool)
        for i, ai in enumerate(ai_list):
            na = nodes[ai]
            row = got[i]
            for j, bi in enumerate(bi_list):
                row[j] = obstruction(na, nodes[bi])
        A = PTS[np.asarray(ai_list)][:, None, :]
        B = PTS[np.asarray(bi_list)][None, :, :]
        exp = segbox.hit_lattice(A, B, BOXES[bxi][0], BOXES[bxi][1])
        bad = np.argwhere(got != exp)
        for (i, j) in bad[:20]:
            report(ai_list[i], bi_list[j], bxi, got[i, j], exp[i, j])
        if len(bad) > 20:
            k = "lattice|" + ("FN/" if exp[tuple(bad[20])] else "FP/") + "more"
            ctx.viol_counts[k] = ctx.viol_counts.get(k, 0) + len(bad) - 20
        nt = nontrivial_mask(np.broadcast_to(A, exp.shape + (3,)), np.broadcast_to(B, exp.shape + (3,)),
                             BOXES[bxi][0], BOXES[bxi][1])
        ctx.clause("lattice", exp.size)
        ctx.bump("answers", "obstructed", int(exp.sum()))
        ctx.bump("answers", "free", int(exp.size - exp.sum()))
        return exp, nt

    if spec["mode"] == "full":
        allb = list(range(343))
        for bxi in range(len(BOXES)):
            exp, nt = sweep(spec["starts"], allb, bxi)
            ctx.add_enumerated(exp.size, int(nt.sum()))
        ctx.samples.append({"kind": "lattice-full", "starts": spec["starts"], "boxes": len(BOXES), "ends": 343})
        ctx.bump("full", "shards_done", 1)
        return

    # ---------------- quick mode ---------------------------------------
    rng = ctx.rng
    scale = int(spec.get("scale", 1))
    nsh = int(spec["nsh"])
    sh = ctx.shard % nsh
    # (A) every box x seeded segments
    nseg = 40 * scale
    for bxi in range(sh, len(BOXES), nsh):
        ai = rng.integers(0, 343, nseg)
        bi = rng.integers(0, 343, nseg)
        planner.obstructions = [entries[bxi]]
        got = np.array([obstruction(nodes[a], nodes[b]) for a, b in zip(ai, bi)], dtype=bool)
        exp = segbox.hit_lattice(PTS[ai], PTS[bi], BOXES[bxi][0], BOXES[bxi][1])
        nt = nontrivial_mask(PTS[ai], PTS[bi], BOXES[bxi][0], BOXES[bxi][1])
        ctx.clause("lattice", nseg)
        for k in range(nseg):
            ctx.case_id((int(ai[k]) * 343 + int(bi[k])) * 3375 + bxi, bool(nt[k]))
            if got[k] != exp[k]:
                report(int(ai[k]), int(bi[k]), bxi, got[k], exp[k])
    ctx.samples.append({"kind": "lattice", "a": PTS[ai[0]].tolist(), "b": PTS[bi[0]].tolist(),
                        "box": BOXES[bxi].tolist(), "obstructed": bool(exp[0])})
    # (B) every segment x seeded boxes (each shard takes a slice of start points)
    starts = list(range(sh, 343, nsh))
    for bxi in rng.integers(0, len(BOXES), 2 * scale):
        bxi = int(bxi)
        exp, nt = sweep(starts, list(range(343)), bxi)
        for i, ai in enumerate(starts):
            for j in range(343):
                ctx.case_id((ai * 343 + j) * 3375 + bxi, bool(nt[i, j]))
    # (C) box sets of 0..5 boxes
    for _ in range(400 * scale):
        k = int(rng.integers(0, 6))
        ids = [int(x) for x in rng.integers(0, len(BOXES), k)]
        ai, bi = int(rng.integers(343)), int(rng.integers(343))
        planner.obstructions = [entries[i] for i in ids]
        got = obstruction(nodes[ai], nodes[bi])
        exp = any(bool(segbox.hit_lattice(PTS[ai], PTS[bi], BOXES[i][0], BOXES[i][1])) for i in ids)
        ctx.clause("sets")
        ctx.case({"set": ids, "a": ai, "b": bi}, k >= 2)
        if bool(got) != exp:
            ctx.violation("sets", ("FN" if exp else "FP") + "/set", {"got": bool(got), "expected": exp},
                          {"kind": "set", "a": PTS[ai].tolist(), "b": PTS[bi].tolist(),
                           "boxes": [BOXES[i].tolist() for i in ids]})
    # (E) several planners alive at once, each with its own boxes registered through addObstruction on a freshly constructed
    #     planner (registrations interleaved): one planner's answer depends on ITS boxes only
    for _ in range(60 * scale):
        npl = int(rng.integers(2, 5))
        pls = [RRTStar(tm()) for _ in range(npl)]
        sets = [[int(x) for x in rng.integers(0, len(BOXES), int(rng.integers(0, 4)))] for _ in range(npl)]
        for rnd in range(3):
            for pl, ids in zip(pls, sets):
                if rnd < len(ids):
                    bx = BOXES[ids[rnd]]
                    pl.addObstruction([float(x) for x in bx[0]], [float(x) for x in bx[1]])
        for pl, ids in zip(pls, sets):
            for _q in range(6):
                ai, bi = int(rng.integers(343)), int(rng.integers(343))
                got = pl.obstruction(nodes[ai], nodes[bi])
                exp = any(bool(segbox.hit_lattice(PTS[ai], PTS[bi], BOXES[i][0], BOXES[i][1])) for i in ids)
                ctx.clause("instances")
                ctx.case({"planner_sets": sets, "which": ids, "a": ai, "b": bi}, len(ids) >= 1)
                if bool(got) != exp:
                    ctx.violation("instances", ("FN" if exp else "FP") + "/several_planners", {"got": bool(got), "expected": exp},
                                  {"kind": "instances", "a": PTS[ai].tolist(), "b": PTS[bi].tolist(), "own_boxes": [BOXES[i].tolist() for i in ids],
                                   "all_sets": [[BOXES[i].tolist() for i in s_] for s_ in sets]})
    # (D) float cases, robust ones only
    nkept = 0
    for _ in range(3000 * scale):
        lo = rng.uniform(-10, 8, 3)
        hi = lo + rng.uniform(0.0, 8.0, 3) * (rng.random(3) < 0.9)
        hi = np.minimum(hi, 10.0)
        mode = rng.integers(4)
        if mode == 0:
            a, b = rng.uniform(-10, 10, 3), rng.uniform(-10, 10, 3)
        elif mode == 1:      # graze near a face / edge
            a = rng.uniform(-10, 10, 3)
            b = a.copy()
            k = int(rng.integers(3))
            a[k], b[k] = -10.0, 10.0
            j = (k + 1) % 3
            a[j] = b[j] = hi[j] + rng.choice([-1e-6, 1e-6, -1e-3, 1e-3, 0.5])
        elif mode == 2:      # starts inside
            a = lo + (hi - lo) * rng.uniform(0.1, 0.9, 3)
            b = rng.uniform(-10, 10, 3)
        else:                # short segment near a corner
            c = np.where(rng.random(3) < 0.5, lo, hi)
            a = c + rng.normal(size=3) * 0.01
            b = c + rng.normal(size=3) * 0.01
        e0 = segbox.hit_exact(a.tolist(), b.tolist(), lo.tolist(), hi.tolist())
        e1 = segbox.hit_exact(a.tolist(), b.tolist(), (lo - 1e-9).tolist(), (hi + 1e-9).tolist())
        e2 = segbox.hit_exact(a.tolist(), b.tolist(), (lo + 1e-9).tolist(), (hi - 1e-9).tolist()) if np.all(hi - lo > 2e-9) else (e0 and np.all(hi - lo > 2e-9))
        if not (e0 == e1 == e2):
            ctx.bump("float", "unstable_skipped", 1)
            continue
        nkept += 1
        planner.obstructions = []
        planner.addObstruction(lo.tolist(), hi.tolist())
        got = obstruction(PathNode(tm([a[0], a[1], a[2], 0.3, -0.2, 0.1])), PathNode(tm([b[0], b[1], b[2], 0, 0, 0])))
        ctx.clause("float")
        ctx.case({"a": a.tolist(), "b": b.tolist(), "lo": lo.tolist(), "hi": hi.tolist()}, True)
        if bool(got) != e0:
            ctx.violation("float", ("FN/" if e0 else "FP/") + "float/" + classify(a, b, lo, hi, e0),
                          {"got": bool(got), "expected": e0},
                          {"kind": "float", "a": a.tolist(), "b": b.tolist(), "lo": lo.tolist(), "hi": hi.tolist()})
    ctx.bump("float", "kept", nkept)


def finalize(m, tier, results):
    if tier == "thorough":
        done = m["extra"].get("full", {}).get("shards_done", 0)
        m["exhaustive"] = bool(done == 49)
        m["extra"]["lattice_pairs_total"] = NSEG * len(BOXES)
        if done != 49:
            m["inconclusive"].append("only %d of 49 lattice shards completed" % done)


def replay(case, ctx):
    from ..worker import import_target
    import_target()
    from basic_robotics.general import tm
    from basic_robotics.path_planning.pathplanner import RRTStar, PathNode
    planner = RRTStar(tm())
    boxes = case.get("boxes")
    if boxes is None:
        boxes = [[case["lo"], case["hi"]]]
    for bx in boxes:
        planner.addObstruction([float(x) for x in bx[0]], [float(x) for x in bx[1]])
    a, b = case["a"], case["b"]
    got = planner.obstruction(PathNode(tm([a[0], a[1], a[2], 0, 0, 0])), PathNode(tm([b[0], b[1], b[2], 0, 0, 0])))
    exp = any(segbox.hit_exact(a, b, bx[0], bx[1]) for bx in boxes)
    ctx.case(case, True)
    ctx.clause("replay")
    if bool(got) != exp:
        ctx.violation(case.get("kind", "lattice"), "replayed", {"got": bool(got), "expected": exp}, case)
