"""C06 - Arm Jacobians are the derivative of forward kinematics; statics is the transpose map."""
import math
import numpy as np

from .. import armlib, gen, tol
from ..oracle import se3

PI = math.pi

META = {
    "level": "exploration",
    "rule": ("arms of C05 (bundled URDFs, 6R test arm, random 1..7-joint chains at identity or random bases), optionally after "
             "a base move and/or a tool change, with link frames and link masses given through the public setters; joint "
             "vectors at least 3h inside the limits; random rate vectors and wrenches.  The derivative of the arm's OWN "
             "FK/FKLink is taken by Richardson-extrapolated central differences (h in [1e-4,2e-3], h/2) and compared with "
             "jacobian, jacobianBody, jacobianLink (every link index), jacobianEETrans, numericalJacobian, "
             "velocityAtEndEffector; statics by virtual work.  Non-trivial: n >= 2 and a generic configuration; distinct by "
             "(arm, base, prefix, theta)."),
    "assumptions": ["comparison at 1e-6 relative to the Frobenius norm of the Jacobian (the Richardson derivative itself reproduces "
                    "the analytic Jacobian to ~1e-12)",
                    "staticForcesInv asserted only where rank J = 6 and sigma_min >= 0.05",
                    "link-mass statics: weights act at the published joint frame times the link's centre of mass; moment about each "
                    "joint axis obtained by differentiating those published positions"],
}
REQUIRED_CLASSES = ["theta:within_5e-4_of_a_limit", "statics_inverse:cond>1e3"]
REQUIRED_REACH = ['kinematics/arm_model.py:Arm.jacobian', 'kinematics/arm_model.py:Arm.jacobianBody', 'kinematics/arm_model.py:Arm.jacobianLink', 'kinematics/arm_model.py:Arm.jacobianEETrans', 'kinematics/arm_model.py:Arm.numericalJacobian', 'kinematics/robot_model.py:Robot.staticForces', 'kinematics/arm_model.py:Arm.staticForcesWithLinkMasses']
REQUIRED_CLAUSES = ["space", "body", "link", "eetrans", "numerical", "velocity", "statics.power", "statics.inverse", "statics.linkmass", "statics.body", "velocity.joints"]


def plan(tier, seed):
    if tier == "quick":
        return [{"n": 60, "timeout_s": 1800} for _ in range(16)]
    return [{"n": 12000, "timeout_s": 14400} for _ in range(16)]


def gen_case(rng):
    r = rng.random()
    if r < 0.3:
        desc = armlib.urdf_desc(gen.pick(rng, armlib.URDFS))
    elif r < 0.45:
        desc = armlib.test6r_desc()
    else:
        desc = armlib.random_desc(rng)
    base = armlib.random_base(rng, 0.3)
    model = armlib.ArmModel(desc, base)
    n = model.n
    h = float(10 ** rng.uniform(-4, math.log10(2e-3)))
    lo, hi = model.lo + 1.5 * h, model.hi - 1.5 * h
    th = rng.uniform(lo, hi)
    if rng.random() < 0.2:
        # inside the limits but closer to one than the library's own difference step (5e-4)
        near = np.where(rng.random(n) < 0.5, hi - rng.uniform(0, 1, n) * max(0.0, 6e-4 - 1.5 * h), lo + rng.uniform(0, 1, n) * max(0.0, 6e-4 - 1.5 * h))
        th = np.where(rng.random(n) < 0.4, near, th)
    if rng.random() < 0.15:
        th = np.where(rng.random(n) < 0.5, 0.0, th)
    th = np.where((np.abs(th) > 0) & (np.abs(th) < 1e-2), 0.0, th)     # keep th +- h out of the exp cut-off band too
    th = np.clip(th, lo, hi)
    # ... and out of the band modulo a full turn: the library stores joint values wrapped to (-2pi, 2pi), so a sample a hair beyond
    # +-2pi is evaluated at a joint value of 1e-7 - inside the cut-off.  Move such values 0.02 rad towards zero.
    d2pi = np.abs(((th + PI) % (2 * PI)) - PI)
    th = np.where((np.abs(th) > PI) & (d2pi < 1e-2), th - np.sign(th) * 2e-2, th)
    prefix = []
    for _ in range(int(rng.choice([0, 0, 1, 1, 2, 3]))):
        k = gen.pick(rng, ["move", "setArbitraryHome", "setArbitraryHome", "restoreOriginalEE"])
        if k == "move":
            prefix.append({"op": "move", "base": armlib.random_base(rng, 0.0)})
        elif k == "setArbitraryHome":
            prefix.append({"op": "setArbitraryHome", "rel": np.concatenate([rng.uniform(-0.3, 0.3, 3), gen.rotvec(rng, ["zero", "generic2"])]).tolist()})
        else:
            prefix.append({"op": "restoreOriginalEE"})
    link_homes = [np.concatenate([rng.uniform(-1, 1, 3), gen.rotvec(rng, ["zero", "generic2"])]).tolist() for _ in range(n)]
    masses = rng.uniform(0.1, 50, n + 1).tolist()
    cgs = [np.concatenate([rng.uniform(-0.3, 0.3, 3), np.zeros(3)]).tolist() for _ in range(n + 1)]
    return {"arm": desc, "base": base, "prefix": prefix, "theta": th.tolist(), "h": h, "qd": (rng.normal(size=n) * 2).tolist(),
            "W": (rng.normal(size=6) * 20).tolist(), "link_homes": link_homes, "masses": masses, "cgs": cgs,
            "grav": (np.array([0, 0, -9.81]) if rng.random() < 0.6 else rng.normal(size=3) * 9.81).tolist()}


def richardson(f, x, i, h):
    def d(step):
        xp = x.copy()
        xm = x.copy()
        xp[i] += step
        xm[i] -= step
        return (f(xp) - f(xm)) / (2 * step)
    return (4 * d(h / 2) - d(h)) / 3


def run_case(case, ctx, bm):
    tm = bm["tm"]
    Wrench = bm["Wrench"]
    desc = case["arm"]
    model = armlib.ArmModel(desc, case["base"])
    arm = armlib.build_arm(desc, case["base"], bm)
    n = model.n
    # link frames / masses through the public setters (before any move so that they are carried like the library does)
    link_tms = [tm(np.array(v, dtype=float)) for v in case["link_homes"]]
    if desc["kind"] != "urdf":
        arm.setOrigins(link_homes_global=[tm(np.array(case["base"], dtype=float)) @ t for t in link_tms])
    try:        # link frames are optional data of a model: probe through the public call instead of reading the private table
        arm.FKLink(np.zeros(n), n - 1)
        has_links = True
    except Exception:
        has_links = False
    arm.setMassProperties(link_masses=np.array(case["masses"], dtype=float),
                          mass_grav_centers=[tm(np.array(v, dtype=float)) for v in case["cgs"]])
    arm.setGrav(np.array(case["grav"], dtype=float)) if hasattr(arm, "setGrav") else None
    moved = False
    for op in case["prefix"]:
        if op["op"] == "move":
            arm.move(tm(np.array(op["base"], dtype=float)))
            moved = True
        elif op["op"] == "restoreOriginalEE":
            arm.restoreOriginalEE()
        else:
            arm.setArbitraryHome(tm(arm.getEEPos().gTM() @ se3.taa_to_T(op["rel"])))
    th = np.array(case["theta"], dtype=float)
    h = case["h"]
    tag = "prefix:" + (">".join({"move": "move", "setArbitraryHome": "tool", "restoreOriginalEE": "restore"}[o["op"]] for o in case["prefix"]) or "none")

    def FK(x):
        return arm.FK(x.copy()).gTM()
    T = FK(th)
    Ti = se3.inv(T)
    Js_fd = np.zeros((6, n))
    Jb_fd = np.zeros((6, n))
    dp = np.zeros((3, n))
    for i in range(n):
        dT = richardson(FK, th, i, h)
        Js_fd[:, i] = se3.vee6(dT @ Ti)
        Jb_fd[:, i] = se3.vee6(Ti @ dT)
        dp[:, i] = dT[:3, 3]
    nrm = max(1e-9, float(np.linalg.norm(Js_fd)))

    def cmp(clause, key, got, want, norm=None, rel=1e-6):
        ctx.clause(clause)
        got = np.asarray(got, dtype=float)
        want = np.asarray(want, dtype=float)
        if got.shape != want.shape:
            ctx.violation(clause, key + "/shape", {"got": got.shape, "want": want.shape}, case)
            return
        nn = nrm if norm is None else max(1e-9, norm)
        e = float(np.linalg.norm(got - want)) / nn
        ctx.err(clause, e)
        if not (e <= rel):
            ctx.violation(clause, key, {"rel_err": e, "norm": nn}, case)

    def guard(clause, key, fn):
        try:
            return fn()
        except Exception as e:
            import traceback
            ctx.clause(clause)
            ctx.violation(clause, key + "/raises/" + type(e).__name__, {"exc": traceback.format_exc()[-400:]}, case)
            return None

    Js = guard("space", "space", lambda: arm.jacobian(th.copy()))
    if Js is not None:
        cmp("space", "space/" + tag, Js, Js_fd)
    Jb = guard("body", "body", lambda: arm.jacobianBody(th.copy()))
    if Jb is not None:
        cmp("body", "body/" + tag, Jb, Jb_fd, float(np.linalg.norm(Jb_fd)))
        if Js is not None:
            cmp("body", "body_is_Ad_inv_T_space/" + tag, Jb, se3.Ad(Ti) @ np.asarray(Js, dtype=float), float(np.linalg.norm(Jb_fd)))
    # link Jacobians: body-frame derivative of the published link frame (not carried by move: only for unmoved arms)
    if has_links and not moved:
        for i in range(n):
            def FKL(x, i=i):
                return arm.FKLink(x.copy(), i).gTM()
            JL = guard("link", "link", lambda: arm.jacobianLink(i, th.copy()))
            if JL is None:
                break
            TL = guard("link", "link.fk", lambda: FKL(th))
            if TL is None:
                break
            want = np.zeros((6, n))
            for j in range(n):
                want[:, j] = se3.vee6(se3.inv(TL) @ richardson(FKL, th, j, h))
            cmp("link", "link/%s" % ("last" if i == n - 1 else "first" if i == 0 else "middle"), JL, want, max(1.0, float(np.linalg.norm(want))))
    Je = guard("eetrans", "eetrans", lambda: arm.jacobianEETrans(th.copy()))
    if Je is not None:
        cmp("eetrans", "eetrans/" + tag, Je, np.vstack([Js_fd[:3, :], dp]), float(np.linalg.norm(np.vstack([Js_fd[:3, :], dp]))))
    Jn = guard("numerical", "numerical", lambda: arm.numericalJacobian(th.copy()))
    if Jn is not None:
        cmp("numerical", "numerical/" + tag, Jn, Js_fd)
    qd = np.array(case["qd"], dtype=float)
    v = guard("velocity", "velocity", lambda: arm.velocityAtEndEffector(qd.copy(), th.copy()))
    if v is not None:
        cmp("velocity", "velocity/" + tag, np.asarray(v, dtype=float).reshape(-1), Js_fd @ qd, nrm * max(1.0, float(np.linalg.norm(qd))))
    Wv = np.array(case["W"], dtype=float)
    for wk, mk in (("wrench", lambda: Wrench(Wv.reshape((6, 1)).copy())), ("array", lambda: Wv.reshape((6, 1)).copy())):
        tau = guard("statics.power", "statics", lambda: arm.staticForces(mk(), th.copy()))
        if tau is None:
            continue
        tau = np.asarray(tau, dtype=float).reshape(-1)
        ctx.clause("statics.power")
        if tau.shape != (n,):
            ctx.violation("statics.power", "statics/shape", {"shape": tau.shape}, case)
            continue
        lhs = float(tau @ qd)
        rhs = float(Wv @ (Js_fd @ qd))
        sc = max(1.0, float(np.linalg.norm(Wv)) * nrm * float(np.linalg.norm(qd)))
        if abs(lhs - rhs) > 1e-6 * sc:
            ctx.violation("statics.power", "statics.power/" + wk + "/" + tag, {"tau.qd": lhs, "W.Jqd": rhs}, case)
        cmp("statics.power", "statics.transpose/" + wk, tau, Js_fd.T @ Wv, nrm * float(np.linalg.norm(Wv)))
        sv = np.linalg.svd(Js_fd, compute_uv=False)
        if n >= 6 and sv[5] >= 0.05:
            Wb = guard("statics.inverse", "statics.inverse", lambda: arm.staticForcesInv(tau.reshape((n, 1)).copy(), th.copy()))
            if Wb is not None:
                got = np.asarray(Wb.getData() if hasattr(Wb, "getData") else Wb, dtype=float).reshape(-1)
                cmp("statics.inverse", "statics.inverse/" + tag, got, Wv, float(np.linalg.norm(Wv)) * max(1.0, sv[0] / sv[5]), rel=1e-6)
        else:
            ctx.cls("statics_inverse_skipped_rank")
    # ---- the generic Robot-level variants: body-frame statics, inverse Jacobians, joint rates from a twist ----
    arm.FK(th.copy())            # the body-frame variants read the arm's current tool pose
    nb = max(1e-9, float(np.linalg.norm(Jb_fd)))
    taub = guard("statics.body", "statics.body", lambda: arm.staticForcesBody(Wrench(Wv.reshape((6, 1)).copy()), th.copy()))
    if taub is not None:
        cmp("statics.body", "statics.body.transpose/" + tag, np.asarray(taub, dtype=float).reshape(-1), Jb_fd.T @ Wv, nb * float(np.linalg.norm(Wv)))
    # the same with the arm parked at another configuration: an explicit joint argument decides, not the arm's current state
    th_other = np.clip(th + np.linspace(0.3, -0.4, n), model.lo, model.hi)
    arm.FK(th_other.copy())
    taub2 = guard("statics.body", "statics.body.parked_elsewhere", lambda: arm.staticForcesBody(Wrench(Wv.reshape((6, 1)).copy()), th.copy()))
    if taub2 is not None:
        cmp("statics.body", "statics.body.transpose.parked_elsewhere/" + tag, np.asarray(taub2, dtype=float).reshape(-1), Jb_fd.T @ Wv, nb * float(np.linalg.norm(Wv)))
    arm.FK(th_other.copy())
    taus2 = guard("statics.power", "statics.parked_elsewhere", lambda: arm.staticForces(Wrench(Wv.reshape((6, 1)).copy()), th.copy()))
    if taus2 is not None:
        cmp("statics.power", "statics.transpose.parked_elsewhere/" + tag, np.asarray(taus2, dtype=float).reshape(-1), Js_fd.T @ Wv, nrm * float(np.linalg.norm(Wv)))
    arm.FK(th_other.copy())
    for nm, fn, Jw in (("jacobianBody", lambda: arm.jacobianBody(th.copy()), Jb_fd), ("jacobian", lambda: arm.jacobian(th.copy()), Js_fd),
                       ("jacobianEETrans", lambda: arm.jacobianEETrans(th.copy()), np.vstack([Js_fd[:3, :], dp]))):
        Jx = guard("body", nm + ".parked_elsewhere", fn)
        if Jx is not None:
            cmp("body", nm + ".parked_elsewhere/" + tag, Jx, Jw, float(np.linalg.norm(Jw)))
        arm.FK(th_other.copy())
    arm.FK(th.copy())
    sv = np.linalg.svd(Js_fd, compute_uv=False)
    if n >= 6 and sv[5] >= 0.05:
        c = sv[0] / sv[5]
        if taub is not None:
            Wbb = guard("statics.body", "statics.body.inverse", lambda: arm.staticForcesInvBody(np.asarray(taub, dtype=float).reshape((n, 1)).copy(), th.copy()))
            if Wbb is not None:
                got = np.asarray(Wbb.getData() if hasattr(Wbb, "getData") else Wbb, dtype=float).reshape(-1)
                svb = np.linalg.svd(Jb_fd, compute_uv=False)
                cmp("statics.body", "statics.body.inverse/" + tag, got, Wv, float(np.linalg.norm(Wv)) * max(1.0, svb[0] / svb[5]), rel=1e-6)
        Vt = Js_fd @ qd
        qd2 = guard("velocity.joints", "velocity.joints", lambda: arm.velocityAtJoints(Vt.copy(), th.copy()))
        if qd2 is not None:
            ctx.clause("velocity.joints")
            back = Js_fd @ np.asarray(qd2, dtype=float).reshape(-1)
            e = float(np.linalg.norm(back - Vt)) / max(1e-9, float(np.linalg.norm(Vt)) * c)
            ctx.err("velocity.joints", e)
            if e > 1e-6:
                ctx.violation("velocity.joints", "velocity.joints/" + tag, {"rel_err": e, "cond": c}, case)
        for nm, fn, J in (("inverseJacobian", lambda: arm.inverseJacobian(th.copy()), Js_fd), ("inverseJacobianBody", lambda: arm.inverseJacobianBody(th.copy()), Jb_fd)):
            Ji = guard("velocity.joints", nm, fn)
            if Ji is not None:
                ctx.clause("velocity.joints")
                Ji = np.asarray(Ji, dtype=float)
                if Ji.shape != (n, 6):
                    ctx.violation("velocity.joints", nm + "/shape", {"shape": Ji.shape}, case)
                else:
                    e = float(np.linalg.norm(J @ Ji @ J - J)) / (float(np.linalg.norm(J)) * c)
                    if e > 1e-6:
                        ctx.violation("velocity.joints", nm + "/not_a_generalised_inverse/" + tag, {"rel_err": e, "cond": c}, case)
    # link-mass statics by virtual work on the published frames
    masses = np.array(case["masses"], dtype=float)
    g = np.array(case["grav"], dtype=float)
    arm.grav = g

    def cg_positions(x):
        arm.FK(x.copy())
        jt = arm.getJointTransforms()
        return np.array([(jt[k].gTM() @ se3.taa_to_T(case["cgs"][k]))[:3, 3] for k in range(1, n + 1)])
    tau_m = guard("statics.linkmass", "statics.linkmass", lambda: arm.staticForcesWithLinkMasses(Wrench(Wv.reshape((6, 1)).copy()), th.copy()))
    if tau_m is not None:
        tau_m = np.asarray(tau_m, dtype=float).reshape(-1)
        want = Js_fd.T @ Wv
        for j in range(n):
            dr = richardson(cg_positions, th, j, h)          # (n, 3): d r_k / d theta_j
            want[j] += float(sum(masses[k] * (g @ dr[k - 1]) for k in range(1, n + 1)))
        sc = nrm * float(np.linalg.norm(Wv)) + float(np.sum(masses[1:])) * float(np.linalg.norm(g)) * max(1.0, nrm)
        cmp("statics.linkmass", "statics.linkmass/" + tag, tau_m, want, sc)
    # ---- inverse statics with the arm standing far from the world origin: the space Jacobian is then badly SCALED (its linear rows
    # grow with the distance, condition number 1e2..1e5) but of full rank all the same - torques mapped back must return the wrench.
    # The far base is a function of the case (no random draw), the Jacobian there is Ad(newB inv(oldB)) times the one differentiated above.
    if n >= 6:
        cur = case["base"]
        for op in case["prefix"]:
            if op["op"] == "move":
                cur = op["base"]
        qd0 = np.asarray(case["qd"], dtype=float)
        d = np.array([qd0[0], qd0[-1], float(np.sum(th))])
        d = d / max(1e-9, float(np.linalg.norm(d)))
        dist = 10.0 + 90.0 * (abs(float(np.sum(qd0))) % 1.0)
        far = np.concatenate([d * dist, np.asarray(cur, dtype=float)[3:]])
        D = se3.taa_to_T(far) @ se3.inv(se3.taa_to_T(cur))
        Jfar = se3.Ad(D) @ Js_fd
        svf = np.linalg.svd(Jfar, compute_uv=False)
        if svf[5] >= 1e-5 * svf[0] and sv[5] >= 0.05:
            ok = True
            try:
                arm.move(tm(far.copy()))
            except Exception:
                ok = False
            if ok:
                ctx.cls("statics_inverse:cond>1e3" if svf[0] / svf[5] > 1e3 else "statics_inverse:cond<=1e3")
                tau_f = guard("statics.inverse", "statics.far_base", lambda: arm.staticForces(Wrench(Wv.reshape((6, 1)).copy()), th.copy()))
                if tau_f is not None:
                    tau_f = np.asarray(tau_f, dtype=float).reshape(-1)
                    Wf = guard("statics.inverse", "statics.inverse.far_base", lambda: arm.staticForcesInv(tau_f.reshape((n, 1)).copy(), th.copy()))
                    if Wf is not None:
                        got = np.asarray(Wf.getData() if hasattr(Wf, "getData") else Wf, dtype=float).reshape(-1)
                        cmp("statics.inverse", "statics.inverse.far_base/" + tag, got, Wv, float(np.linalg.norm(Wv)) * (svf[0] / svf[5]), rel=1e-6)


def run_shard(spec, ctx):
    bm = armlib.load_bm()
    for _ in range(int(spec["n"])):
        case = gen_case(ctx.rng)
        th = np.array(case["theta"])
        ctx.cls("arm:" + case["arm"]["kind"])
        _m = armlib.ArmModel(case["arm"], case["base"])
        _t = np.array(case["theta"], dtype=float)
        if np.any((_m.hi - _t < 5e-4) | (_t - _m.lo < 5e-4)):
            ctx.cls("theta:within_5e-4_of_a_limit")
        ctx.case({"arm": case["arm"].get("file", case["arm"]["kind"]), "S": gen.quant(case["arm"].get("S", []), 1e-6)[:12],
                  "b": gen.quant(case["base"], 1e-6), "p": [o["op"] for o in case["prefix"]], "th": gen.quant(th, 1e-6)},
                 bool(len(th) >= 2 and np.count_nonzero(th) >= 2), sample_every=0)
        try:
            run_case(case, ctx, bm)
        except Exception:
            import traceback
            ctx.violation("harness", "unexpected", {"exc": traceback.format_exc()[-800:]}, case)
    c = dict(case)
    c["arm"] = case["arm"].get("file", case["arm"]["kind"])
    ctx.samples.append({k: c[k] for k in ("arm", "base", "prefix", "theta", "h")})


def replay(case, ctx):
    bm = armlib.load_bm()
    ctx.case(case["theta"], True)
    run_case(case, ctx, bm)
