"""C19 - message router delivers each received message exactly once per active rule."""
import itertools
import socket
import numpy as np

from .. import gen
from ..oracle.router_model import RouterModel

META = {
    "level": "fault_enumeration",
    "rule": ("histories over {setForwardData, deleteForwardingRule, setDataSink, setDataSource, getData, sendData, spin(k), "
             "openCom/closeCom, message arrival, receive fault}: every sequence up to depth 5 (thorough) / 3 (quick, plus a "
             "sample of depth 4-5) over a 23-operation alphabet on a hub with endpoints A, B (and the unknown name Z); "
             "random histories of depth <= 60 on hubs of 1..4 endpoints with 0..3 sinks and sources, each re-run with a "
             "receive fault (no data) injected at every receive position in turn; a short run over real UDP loopback sockets.  "
             "Endpoints are in-memory doubles of CommsObject installed in Comms.endpoints that log every sendData/getData; "
             "sinks/sources are recording callables; every message has a unique id.  After each step the multiset of "
             "deliveries is compared with a sequential reference model and registration return values with 'the model's rule "
             "set changed'.  Non-trivial: the history contains a receive while at least one rule is active; distinct by the "
             "operation sequence (and fault position)."),
    "assumptions": ["the model is parametrised on which receives actually happened (observed at the doubles), so it does not "
                    "prescribe which endpoints spin() polls",
                    "UDP part is reported as skipped (not held) if loopback sockets cannot be bound"],
}
REQUIRED_REACH = ['interfaces/comms_core.py:Comms.getData', 'interfaces/comms_core.py:Comms.spin', 'interfaces/comms_core.py:Comms.setForwardData', 'interfaces/comms_core.py:Comms.deleteForwardingRule', 'interfaces/comms_core.py:Comms.setDataSink', 'interfaces/comms_core.py:Comms.setDataSource', 'interfaces/comms_core.py:Comms.sendData']
REQUIRED_CLAUSES = ["registration.return", "get.deliveries", "nodata.nothing", "spin.sources_once", "spin.polls", "spin.deliveries", "fault.injected",
                    "exhaustive.sequences"]


class Log:
    def __init__(self):
        self.ev = []
        self.msg_counter = 0
        self.recv_counter = 0
        self.fault_at = None         # global receive index that yields no data
        self.faults_fired = 0


def make_double(CommsObject, name, log):
    class Double(CommsObject):
        def __init__(self):
            super().__init__(name, "DOUBLE")
            self.queue = []
            self.open = True
            self.arm_fault = False

        def sendData(self, data):
            # the attempt is what the router owes each rule; like UDPObject, a closed endpoint reports the send as failed
            log.ev.append(("send", name, data))
            self.last_tx_success = bool(self.open)
            return bool(self.open)

        def getData(self):
            idx = log.recv_counter
            log.recv_counter += 1
            if not self.open:
                log.ev.append(("recv", name, None, "closed"))
                return None
            if self.arm_fault or (log.fault_at is not None and idx == log.fault_at):
                self.arm_fault = False
                log.faults_fired += 1
                log.ev.append(("recv", name, None, "fault"))
                return None
            if not self.queue:
                log.ev.append(("recv", name, None, "timeout"))
                return None
            m = self.queue.pop(0)
            log.ev.append(("recv", name, m, "data"))
            return m

        def openCom(self):
            if not self.open:
                self.open = True
                return True
            return False

        def closeCom(self):
            if self.open:
                self.open = False
                return True
            return False
    return Double()


class World:
    """A real hub with doubles + the reference model + recording sinks/sources."""

    def __init__(self, Comms, CommsObject, endpoints, fault_at=None):
        self.log = Log()
        self.log.fault_at = fault_at
        self.hub = Comms()
        self.names = list(endpoints)
        self.doubles = {}
        for n in self.names:
            d = make_double(CommsObject, n, self.log)
            self.doubles[n] = d
            self.hub.endpoints[n] = d
        self.model = RouterModel(self.names)
        self.sinks = {}
        self.sources = {}
        self.src_counter = {}

    def sink(self, sid):
        if sid is None:
            return None
        if sid not in self.sinks:
            def f(m, sid=sid):
                self.log.ev.append(("sink", sid, m))
            self.sinks[sid] = f
        return self.sinks[sid]

    def source(self, qid):
        if qid is None:
            return None
        if qid not in self.sources:
            def f(qid=qid):
                c = self.src_counter.get(qid, 0)
                self.src_counter[qid] = c + 1
                v = "%s#%d" % (qid, c)
                self.log.ev.append(("srccall", qid, v))
                return v
            self.sources[qid] = f
        return self.sources[qid]

    def state_key(self):
        return (self.model.key(), tuple((n, len(self.doubles[n].queue), self.doubles[n].open, self.doubles[n].arm_fault) for n in self.names))


def step(w, op, ctx, hist, step_no):
    """Execute one operation on the real hub, compare with the model. Returns False on violation."""
    log = w.log
    n0 = len(log.ev)
    kind = op[0]

    def bad(clause, key, **d):
        d["step"] = step_no
        d["op"] = list(op)
        d["events"] = [list(map(str, e)) for e in log.ev[n0:n0 + 12]]
        ctx.violation(clause, key, d, hist)
        return False

    try:
        if kind == "fwd":
            want = w.model.set_forward(op[1], op[2])
            got = w.hub.setForwardData(op[1], op[2])
        elif kind == "del":
            want = w.model.delete_forward(op[1], op[2])
            got = w.hub.deleteForwardingRule(op[1], op[2])
        elif kind == "sink":
            want = w.model.set_sink(op[1], op[2])
            got = w.hub.setDataSink(op[1], w.sink(op[2]))
        elif kind == "src":
            want = w.model.set_source(op[1], op[2])
            got = w.hub.setDataSource(op[1], w.source(op[2]))
        elif kind == "inject":
            log.msg_counter += 1
            w.doubles[op[1]].queue.append("m%d@%s" % (log.msg_counter, op[1]))
            return True
        elif kind == "inject_falsy":
            # a received message whose payload happens to be falsy is still a message ('' is what an empty datagram decodes to)
            log.msg_counter += 1
            w.doubles[op[1]].queue.append(FALSY[log.msg_counter % len(FALSY)])
            return True
        elif kind == "fault":
            w.doubles[op[1]].arm_fault = True
            return True
        elif kind == "open":
            w.hub.openCom(op[1])
            return True
        elif kind == "close":
            w.hub.closeCom(op[1])
            return True
        elif kind == "closeall":
            w.hub.closeAll()
            return True
        elif kind == "openall":
            w.hub.openAll()
            return True
        elif kind == "get":
            got = w.hub.getData(op[1])
        elif kind == "send":
            log.msg_counter += 1
            data = "d%d" % log.msg_counter
            got = w.hub.sendData(op[1], data)
        elif kind == "spin":
            got = w.hub.spin(op[1])
        else:
            raise KeyError(kind)
    except Exception as e:
        import traceback
        ctx.clause("returns")
        last = log.ev[-1] if len(log.ev) > n0 else None
        why = "after_nodata_receive" if (last is not None and last[0] == "recv" and last[2] is None) or \
            any(e2[0] in ("send", "sink") and e2[2] is None for e2 in log.ev[n0:]) else "other"
        return bad("returns", "raises/%s/op=%s/%s" % (type(e).__name__, kind, why), exc=traceback.format_exc()[-300:])
    ev = log.ev[n0:]
    if kind in ("fwd", "del", "sink", "src"):
        ctx.clause("registration.return")
        if bool(got) != bool(want) or ev:
            return bad("registration.return", "registration/%s/%s" % (kind, "claims_change" if got else "denies_change"), got=got, want=want)
        return True
    if kind == "send":
        ctx.clause("send.once")
        exp = [("send", op[1], data)] if op[1] in w.names else []
        if sorted(map(str, ev)) != sorted(map(str, exp)):
            return bad("send.once", "send/" + ("unknown" if op[1] not in w.names else "known"))
        return True
    # get / spin: walk the events
    recvs = [e for e in ev if e[0] == "recv"]
    expected = []
    for r in recvs:
        expected += w.model.deliveries(r[1], r[2])
    if kind == "get":
        if op[1] not in w.names:
            ctx.clause("nodata.nothing")
            if ev or got is not None:
                return bad("nodata.nothing", "unknown_port_delivers")
            return True
        if len(recvs) != 1 or recvs[0][1] != op[1]:
            ctx.clause("get.deliveries")
            return bad("get.deliveries", "get/wrong_receives", receives=len(recvs))
        m = recvs[0][2]
        actual = [e for e in ev if e[0] in ("send", "sink")]
        if m is None:
            ctx.clause("nodata.nothing")
            if recvs[0][3] == "fault":
                ctx.clause("fault.injected")
            if actual or got is not None:
                return bad("nodata.nothing", "nodata_delivers/%s" % recvs[0][3], returned=got)
            return True
        ctx.clause("get.deliveries")
        if got != m:
            return bad("get.deliveries", "get/return_value", returned=got, message=m)
        if sorted(map(str, actual)) != sorted(map(str, expected)):
            dup = len(actual) > len(set(map(str, actual)))
            return bad("get.deliveries", "get/" + ("duplicate" if dup else "missing" if len(actual) < len(expected) else "wrong_target"),
                       expected=[list(map(str, e)) for e in expected])
        return True
    # spin(k)
    k = op[1]
    calls = [e for e in ev if e[0] == "srccall"]
    ctx.clause("spin.sources_once")
    exp_src = []
    per = {}
    for c in calls:
        per[c[1]] = per.get(c[1], 0) + 1
    okc = True
    for o, qs in w.model.sources.items():
        for q in qs:
            pass
    want_calls = {}
    for o, qs in w.model.sources.items():
        for q in qs:
            want_calls[q] = want_calls.get(q, 0) + k
    if per != {q: c for q, c in want_calls.items() if c}:
        return bad("spin.sources_once", "spin/source_call_count", calls=per, want=want_calls)
    # each produced value goes once to every endpoint its source is bound to, in production order
    prod = {}
    for c in calls:
        prod.setdefault(c[1], []).append(c[2])
    for o, qs in w.model.sources.items():
        for q in qs:
            pass
    # a source bound to several endpoints is called once per binding; map calls to endpoints by order of iteration is not
    # observable, so compare multisets: every produced value is sent exactly once, to an endpoint the source is bound to
    actual = [e for e in ev if e[0] in ("send", "sink")]
    src_sends = []
    rest = list(actual)
    for c in calls:
        cands = [e for e in rest if e[0] == "send" and e[2] == c[2]]
        bound = [o for o, qs in w.model.sources.items() if c[1] in qs]
        if len(cands) != 1 or cands[0][1] not in bound:
            return bad("spin.sources_once", "spin/source_value_" + ("lost" if not cands else "duplicated" if len(cands) > 1 else "misrouted"), value=c[2])
        rest.remove(cands[0])
    # sends per (endpoint, source) pair must be k each
    # every endpoint that has a sink or a destination registered is read at least once per spin iteration, whatever else is
    # registered on it (a source, say): otherwise a message waiting there is never received, so never delivered
    ctx.clause("spin.polls")
    for nme in w.names:
        if w.model.fwd.get(nme) or w.model.sinks.get(nme):
            reads = sum(1 for r in recvs if r[1] == nme)
            if reads < k:
                return bad("spin.polls", "spin/listening_endpoint_not_read" + ("/has_source" if w.model.sources.get(nme) else ""), endpoint=nme, reads=reads, k=k)
    ctx.clause("spin.deliveries")
    for r in recvs:
        if r[2] is None:
            ctx.clause("nodata.nothing")
            if r[3] == "fault":
                ctx.clause("fault.injected")
    if sorted(map(str, rest)) != sorted(map(str, expected)):
        nodata = any(e[2] is None for e in rest)
        dup = len(rest) > len(set(map(str, rest)))
        return bad("spin.deliveries" if not nodata else "nodata.nothing",
                   "spin/" + ("nodata_delivers" if nodata else "duplicate" if dup else "missing" if len(rest) < len(expected) else "wrong_target"),
                   expected=[list(map(str, e)) for e in expected])
    return True


FALSY = ["", 0, b"", 0.0]

ALPHABET = [("inject_falsy", "A"), ("fwd", "A", "B"), ("fwd", "B", "A"), ("fwd", "A", "A"), ("fwd", "A", "Z"), ("del", "A", "B"), ("del", "B", "A"), ("del", "A", "Z"),
            ("sink", "A", "s1"), ("sink", "A", "s2"), ("sink", "B", "s1"), ("src", "B", "q1"), ("src", "A", "q1"),
            ("inject", "A"), ("inject", "B"), ("get", "A"), ("get", "B"), ("get", "Z"), ("send", "B"), ("spin", 1),
            ("close", "A"), ("open", "A"), ("fault", "A")]


def run_sequence(ops, ctx, Comms, CommsObject, endpoints=("A", "B"), fault_at=None, states=None):
    w = World(Comms, CommsObject, endpoints, fault_at)
    hist = {"endpoints": list(endpoints), "ops": [list(o) for o in ops], "fault_at": fault_at}
    for i, op in enumerate(ops):
        ok = step(w, op, ctx, hist, i)
        if states is not None:
            states.add(w.state_key())
        if not ok:
            return w, False
    return w, True


def nontrivial(ops):
    rule = False
    for o in ops:
        if o[0] in ("fwd", "sink"):
            rule = True
        if rule and o[0] in ("get", "spin"):
            return True
    return False


def random_history(rng, names):
    sinks = ["s%d" % i for i in range(int(rng.integers(0, 4)))]
    srcs = ["q%d" % i for i in range(int(rng.integers(0, 4)))]
    L = int(rng.integers(5, 61))
    ops = []
    allnames = list(names) + ["Z"]
    for _ in range(L):
        k = gen.pick(rng, ["fwd", "fwd", "del", "sink", "src", "inject", "inject", "inject", "inject_falsy", "get", "get", "send", "spin", "spin", "close", "open", "fault", "closeall", "openall"])
        if k in ("closeall", "openall"):
            ops.append((k,))
        elif k in ("fwd", "del"):
            ops.append((k, gen.pick(rng, allnames), gen.pick(rng, allnames)))
        elif k == "sink":
            ops.append((k, gen.pick(rng, allnames), gen.pick(rng, sinks + [None]) if sinks else None))
        elif k == "src":
            ops.append((k, gen.pick(rng, allnames), gen.pick(rng, srcs + [None]) if srcs else None))
        elif k in ("inject", "inject_falsy", "close", "open", "fault"):
            ops.append((k, gen.pick(rng, list(names))))
        elif k in ("get", "send"):
            ops.append((k, gen.pick(rng, allnames)))
        else:
            ops.append(("spin", int(rng.integers(0, 4))))
    return ops


def udp_part(ctx, Comms):
    """Real loopback sockets: A receives from an external sender, forwards to B whose tx port an external receiver owns."""
    def free_port():
        s = socket.socket(socket.AF_INET, socket.SOCK_DGRAM)
        s.bind(("127.0.0.1", 0))
        p = s.getsockname()[1]
        s.close()
        return p
    try:
        pa_rx, pb_rx, pb_tx, pa_tx = free_port(), free_port(), free_port(), free_port()
        rcv = socket.socket(socket.AF_INET, socket.SOCK_DGRAM)
        rcv.bind(("127.0.0.1", pb_tx))
        rcv.settimeout(0.3)
        snd = socket.socket(socket.AF_INET, socket.SOCK_DGRAM)
    except OSError as e:
        ctx.bump("udp", "skipped_no_sockets")
        return
    hist = {"udp": True}
    hub = Comms()
    got_sink = []
    try:
        hub.newComPort("A", "UDP", "127.0.0.1", pa_rx, pa_tx, 0.05)
        hub.newComPort("B", "UDP", "127.0.0.1", pb_rx, pb_tx, 0.05)
        hub.openAll()
        hub.setForwardData("A", "B")
        hub.setDataSink("A", got_sink.append)
        # (1) no data pending: time-out must deliver nothing and raise nothing
        ctx.clause("udp.nodata")
        try:
            r = hub.getData("A")
            try:
                extra = rcv.recvfrom(1024)
            except (socket.timeout, TimeoutError):
                extra = None
            if r is not None or got_sink or extra is not None:
                ctx.violation("udp.nodata", "udp/nodata_delivers", {"ret": r, "sink": list(got_sink), "wire": str(extra)}, hist)
        except Exception as e:
            ctx.violation("udp.nodata", "udp/nodata_raises/" + type(e).__name__, {"exc": repr(e)[:200]}, hist)
        # (2) messages are delivered exactly once
        for i in range(5):
            msg = "u%d" % i
            snd.sendto(msg.encode(), ("127.0.0.1", pa_rx))
            ctx.clause("udp.delivery")
            del got_sink[:]
            try:
                r = hub.getData("A")
                wire = []
                try:
                    while True:
                        wire.append(rcv.recvfrom(1024)[0].decode())
                except (socket.timeout, TimeoutError):
                    pass
                if r != msg or got_sink != [msg] or wire != [msg]:
                    ctx.violation("udp.delivery", "udp/delivery", {"ret": r, "sink": list(got_sink), "wire": wire}, hist)
            except Exception as e:
                ctx.violation("udp.delivery", "udp/raises/" + type(e).__name__, {"exc": repr(e)[:200]}, hist)
            # (3) a time-out AFTER traffic delivers nothing either (no replay of the previous datagram), through getData and spin
            if i in (0, 2, 4):
                ctx.clause("udp.nodata")
                del got_sink[:]
                try:
                    r2 = hub.getData("A") if i != 2 else None
                    if i == 2:
                        hub.spin(2)
                    wire = []
                    try:
                        while True:
                            wire.append(rcv.recvfrom(1024)[0].decode())
                    except (socket.timeout, TimeoutError):
                        pass
                    if r2 is not None or got_sink or wire:
                        ctx.violation("udp.nodata", "udp/timeout_after_traffic_delivers/" + ("spin" if i == 2 else "getData"),
                                      {"ret": r2, "sink": list(got_sink), "wire": wire, "previous": msg}, hist)
                except Exception as e:
                    ctx.violation("udp.nodata", "udp/nodata_raises/" + type(e).__name__, {"exc": repr(e)[:200]}, hist)
        ctx.bump("udp", "ran")
    except OSError:
        ctx.bump("udp", "skipped_bind_failed")
    finally:
        for n in ("A", "B"):
            try:
                c = hub.getCom(n)
                if c is not None and c.comm_handle is not None:
                    c.comm_handle.close()
            except Exception:
                pass
        rcv.close()
        snd.close()


def plan(tier, seed):
    n = len(ALPHABET)
    if tier == "quick":
        sp = [{"mode": "exh", "depth": 3, "first": None, "timeout_s": 900}]
        sp += [{"mode": "sample", "n": 6000, "timeout_s": 900} for _ in range(7)]
        sp += [{"mode": "random", "n": 40, "udp": i == 0, "timeout_s": 900} for i in range(8)]
        return sp
    sp = [{"mode": "exh", "depth": 4, "first": None, "timeout_s": 3600}]
    sp += [{"mode": "exh5", "first": [i], "timeout_s": 7200} for i in range(n)]
    sp += [{"mode": "random", "n": 6000, "udp": i == 0, "timeout_s": 7200} for i in range(16)]
    return sp


def _load():
    from ..worker import import_target
    import_target()
    from basic_robotics.interfaces.comms_core import Comms
    from basic_robotics.interfaces.comms_object import CommsObject
    return Comms, CommsObject


def run_shard(spec, ctx):
    Comms, CommsObject = _load()
    rng = ctx.rng
    n = len(ALPHABET)
    states = set()
    mode = spec["mode"]

    def sid(idx):
        v = 0
        for i in idx:
            v = v * (n + 1) + i + 1
        return v
    if mode == "exh":
        for L in range(1, spec["depth"] + 1):
            for idx in itertools.product(range(n), repeat=L):
                ops = [ALPHABET[i] for i in idx]
                ctx.case_id(sid(idx), nontrivial(ops))
                ctx.clause("exhaustive.sequences")
                run_sequence(ops, ctx, Comms, CommsObject, states=states)
        ctx.bump("exhaustive_parts", "depth<=%d" % spec["depth"], 1)
        ctx.samples.append({"ops": [list(o) for o in ops]})
    elif mode == "exh5":
        for i in spec["first"]:
            for idx in itertools.product(range(n), repeat=4):
                ops = [ALPHABET[i]] + [ALPHABET[j] for j in idx]
                ctx.case_id(sid((i,) + idx), nontrivial(ops))
                ctx.clause("exhaustive.sequences")
                run_sequence(ops, ctx, Comms, CommsObject, states=states)
            ctx.bump("exhaustive_parts", "depth5_first_ops", 1)
    elif mode == "sample":
        for _ in range(int(spec["n"])):
            L = int(rng.integers(4, 6))
            idx = tuple(int(x) for x in rng.integers(0, n, L))
            ops = [ALPHABET[i] for i in idx]
            ctx.case_id(sid(idx), nontrivial(ops))
            ctx.clause("exhaustive.sequences")
            run_sequence(ops, ctx, Comms, CommsObject, states=states)
        ctx.samples.append({"ops": [list(o) for o in ops]})
    else:
        if spec.get("udp"):
            udp_part(ctx, Comms)
        for _ in range(int(spec["n"])):
            names = ["A", "B", "C", "D"][:int(rng.integers(1, 5))]
            ops = random_history(rng, names)
            ctx.case([list(o) for o in ops], nontrivial(ops))
            w, ok = run_sequence(ops, ctx, Comms, CommsObject, names, states=states)
            if not ok:
                continue
            R = w.log.recv_counter
            ctx.bump("faults", "receive_positions", R)
            for j in range(R):
                ctx.case([j, [list(o) for o in ops]], nontrivial(ops))
                w2, ok2 = run_sequence(ops, ctx, Comms, CommsObject, names, fault_at=j, states=states)
                ctx.bump("faults", "injected", w2.log.faults_fired)
                if not ok2:
                    break
        ctx.samples.append({"endpoints": names, "ops": [list(o) for o in ops][:20], "receive_positions_faulted": R})
    ctx.extra["states_seen_in_shard"] = len(states)
    ctx.bump("totals", "states", len(states))


def finalize(m, tier, results):
    n = len(ALPHABET)
    parts = m["extra"].get("exhaustive_parts", {})
    m["extra"]["states"] = int(m["extra"].get("totals", {}).get("states", 0))
    m["extra"]["transitions"] = int(sum(v for k, v in m["clauses"].items() if k in ("registration.return", "get.deliveries", "nodata.nothing",
                                                                                   "spin.deliveries", "send.once")))
    if tier == "thorough":
        full = parts.get("depth<=4", 0) == 1 and parts.get("depth5_first_ops", 0) == n
        m["extra"]["exhaustive_depth5_complete"] = bool(full)
        if not full:
            m["inconclusive"].append("exhaustive depth-5 enumeration incomplete: %r" % parts)
    elif parts.get("depth<=3", 0) != 1:
        m["inconclusive"].append("exhaustive depth-3 enumeration incomplete")
    if m["extra"].get("udp", {}).get("ran", 0) == 0:
        m["extra"]["udp_part"] = "skipped"


def replay(case, ctx):
    Comms, CommsObject = _load()
    ctx.case("replay", True)
    if case.get("udp"):
        udp_part(ctx, Comms)
        return
    run_sequence([tuple(o) for o in case["ops"]], ctx, Comms, CommsObject, case["endpoints"], case.get("fault_at"))
