"""C08 - rigid-body dynamics are physically consistent (mr level and Arm level)."""
import math
import numpy as np

from .. import armlib, gen, tol
from ..oracle import se3

PI = math.pi

META = {
    "level": "exploration",
    "rule": ("chains of 1..7 revolute joints with random screws, random link frames, SPD spatial inertias (random SPD and "
             "physical: mass in [0.1,50] at the link-frame origin), q in [-pi,pi]^n, qd/qdd/torques/gravity/tip wrenches of "
             "magnitude <= 100.  mr level: M symmetric positive definite and equal to sum J_i^T G_i J_i with the oracle's own "
             "link Jacobians, FD(ID(qdd)) = qdd, ID = M qdd + c + g + tip term, tip term = J_b^T F, qd.c = 1/2 qd^T Mdot qd "
             "(Richardson), g = grad V (physical inertias), torque-free trajectories conserve energy (solve_ivp rtol 1e-10).  "
             "Arm level: arms given consistent frames and 6x6 inertias through setOrigins/setMassProperties (6R test arm and "
             "random chains): inverseDynamics, inverseDynamicsC (n = 6), inverseDynamicsEMR, massMatrix, coriolisGravity, "
             "forwardDynamics, forwardDynamicsE agree with each other and with the mr functions.  Non-trivial: n >= 2 and "
             "non-zero velocity; distinct by quantised state."),
    "assumptions": ["identities to 1e-8 relative to the magnitude of the terms, 1e-6 where a finite difference of M or V is involved",
                    "Arm-level clauses on arms as configured by the setters (link frames are not carried by move, as the property says)",
                    "energy conservation checked on a small number of integrated trajectories per run (cost)"],
}
REQUIRED_REACH = ['kinematics/arm_model.py:Arm.inverseDynamics', 'kinematics/arm_model.py:Arm.inverseDynamicsEMR', 'kinematics/arm_model.py:Arm.massMatrix', 'kinematics/arm_model.py:Arm.forwardDynamics', 'kinematics/arm_model.py:Arm.forwardDynamicsE', 'kinematics/arm_model.py:Arm.coriolisGravity']
REQUIRED_CLAUSES = ["mass.spd", "mass.sum_JGJ", "fd_inverts_id", "decomposition", "tip_term", "coriolis_power", "gravity_gradient",
                    "arm.inverseDynamics", "arm.inverseDynamicsC", "arm.inverseDynamicsEMR", "arm.massMatrix", "arm.coriolisGravity",
                    "arm.forwardDynamics", "arm.forwardDynamicsE", "energy_conservation", "arm.integrate", "arm.defaults"]


def plan(tier, seed):
    if tier == "quick":
        return [{"n": 40, "ntraj": 3, "timeout_s": 1800} for _ in range(16)]
    return [{"n": 5000, "ntraj": 40, "timeout_s": 14400} for _ in range(16)]


def gen_chain(rng, n=None, physical=None):
    n = int(rng.integers(1, 8)) if n is None else n
    S = gen.screw_axes(rng, n, prismatic_ok=False)
    Mlist = [se3.rp(se3.exp3(gen.rotvec(rng, ["zero", "generic2", "generic2"])), rng.uniform(-0.5, 0.5, 3)) for _ in range(n + 1)]
    physical = bool(rng.random() < 0.5) if physical is None else physical
    Glist = [gen.spd6(rng, physical) for _ in range(n)]
    return {"n": n, "S": S.tolist(), "Mlist": [m.tolist() for m in Mlist], "Glist": [g.tolist() for g in Glist], "physical": physical}


def gen_state(rng, n):
    mag = float(rng.choice([1.0, 10.0, 100.0]))
    return {"q": rng.uniform(-PI, PI, n).tolist(), "qd": (rng.normal(size=n) * rng.choice([0.0, 1.0, 3.0, 10.0])).tolist(),
            "qdd": (rng.normal(size=n) * mag / 10).tolist(), "g": (np.array([0, 0, -9.81]) if rng.random() < 0.5 else rng.normal(size=3) * 10).tolist(),
            "F": (rng.normal(size=6) * mag / 3).tolist(), "tau": (rng.normal(size=n) * mag / 3).tolist()}


def link_frames(chain, q):
    """T_0i(q) for i = 1..n and the tip frame (oracle)."""
    S = np.array(chain["S"])
    Ml = [np.array(m) for m in chain["Mlist"]]
    n = chain["n"]
    out = []
    Mi = np.eye(4)
    for i in range(n):
        Mi = Mi @ Ml[i]
        out.append(se3.poe_space(Mi, S[:, :i + 1], q[:i + 1]))
    tip = se3.poe_space(Mi @ Ml[n], S, q)
    return out, tip


def link_jacobians(chain, q):
    S = np.array(chain["S"])
    n = chain["n"]
    Js = se3.jac_space(S, q)
    frames, tip = link_frames(chain, q)
    Jl = []
    for i in range(n):
        J = np.zeros((6, n))
        J[:, :i + 1] = se3.Ad(se3.inv(frames[i])) @ Js[:, :i + 1]
        Jl.append(J)
    Jtip = se3.Ad(se3.inv(tip)) @ Js
    return Jl, Jtip, frames


def potential(chain, q, g):
    frames, _ = link_frames(chain, q)
    V = 0.0
    for Gi, T in zip(chain["Glist"], frames):
        m = np.array(Gi)[3, 3]
        V -= m * float(np.array(g) @ T[:3, 3])
    return V


def richardson_scalar_grad(f, x, h):
    g = np.zeros(len(x))
    for i in range(len(x)):
        def d(s):
            xp, xm = x.copy(), x.copy()
            xp[i] += s
            xm[i] -= s
            return (f(xp) - f(xm)) / (2 * s)
        g[i] = (4 * d(h / 2) - d(h)) / 3
    return g


def check_mr(chain, st, ctx, mr, case):
    n = chain["n"]
    S = np.ascontiguousarray(np.array(chain["S"]))
    Ml = [np.ascontiguousarray(np.array(m)) for m in chain["Mlist"]]
    Gl = [np.array(g) for g in chain["Glist"]]
    q, qd, qdd = (np.array(st[k], dtype=float) for k in ("q", "qd", "qdd"))
    g = np.array(st["g"], dtype=float)
    F = np.array(st["F"], dtype=float)

    def viol(clause, key, **d):
        ctx.violation(clause, key, d, case)

    try:
        M = np.asarray(mr.MassMatrix(q.copy(), Ml, Gl, S), dtype=float)
        c = np.asarray(mr.VelQuadraticForces(q.copy(), qd.copy(), Ml, Gl, S), dtype=float)
        gf = np.asarray(mr.GravityForces(q.copy(), g.copy(), Ml, Gl, S), dtype=float)
        ef = np.asarray(mr.EndEffectorForces(q.copy(), F.copy(), Ml, Gl, S), dtype=float)
        tau = np.asarray(mr.InverseDynamics(q.copy(), qd.copy(), qdd.copy(), g.copy(), F.copy(), Ml, Gl, S), dtype=float)
        tau_keep = tau.copy()
        qdd_back = np.asarray(mr.ForwardDynamics(q.copy(), qd.copy(), tau, g.copy(), F.copy(), Ml, Gl, S), dtype=float)
        qdd_again = np.asarray(mr.ForwardDynamics(q.copy(), qd.copy(), tau, g.copy(), F.copy(), Ml, Gl, S), dtype=float)     # same torque array, second call
        if not np.array_equal(qdd_back, qdd_again) or not np.array_equal(tau, tau_keep):
            viol("fd_inverts_id", "fd_changes_on_second_call_with_the_same_torque_array", err=float(np.max(np.abs(qdd_back - qdd_again))))
    except Exception as e:
        import traceback
        ctx.clause("returns")
        viol("returns", "mr/raises/" + type(e).__name__, exc=traceback.format_exc()[-400:])
        return
    Mn = max(1e-9, float(np.linalg.norm(M)))
    ctx.clause("mass.spd")
    sym = float(np.linalg.norm(M - M.T)) / Mn
    try:
        np.linalg.cholesky((M + M.T) / 2)
        pd = True
    except np.linalg.LinAlgError:
        pd = False
    if M.shape != (n, n) or sym > 1e-8 or not pd:
        viol("mass.spd", "mass.spd", sym_err=sym, positive_definite=pd)
    Jl, Jtip, frames = link_jacobians(chain, q)
    ctx.clause("mass.sum_JGJ")
    Mo = sum(J.T @ G @ J for J, G in zip(Jl, Gl))
    e = float(np.linalg.norm(M - Mo)) / Mn
    ctx.err("mass.sum_JGJ", e)
    if e > 1e-8:
        viol("mass.sum_JGJ", "mass.sum_JGJ", rel_err=e)
    ctx.clause("fd_inverts_id")
    cond = float(np.linalg.cond(M))
    e = float(np.linalg.norm(qdd_back - qdd)) / max(1.0, float(np.linalg.norm(qdd)))
    ctx.err("fd_inverts_id", e / max(1.0, cond / 1e3))
    if e > 1e-8 * max(1.0, cond / 1e3):
        viol("fd_inverts_id", "fd_inverts_id", rel_err=e, cond=cond)
    ctx.clause("decomposition")
    rhs = M @ qdd + c + gf + ef
    sc = max(1.0, float(np.linalg.norm(M @ qdd)) + float(np.linalg.norm(c)) + float(np.linalg.norm(gf)) + float(np.linalg.norm(ef)))
    e = float(np.linalg.norm(tau - rhs)) / sc
    ctx.err("decomposition", e)
    if e > 1e-8:
        viol("decomposition", "decomposition", rel_err=e)
    ctx.clause("tip_term")
    e = float(np.linalg.norm(ef - Jtip.T @ F)) / max(1.0, float(np.linalg.norm(Jtip)) * float(np.linalg.norm(F)))
    ctx.err("tip_term", e)
    if e > 1e-8:
        viol("tip_term", "tip_term", rel_err=e)
    # qd . c = 1/2 qd^T Mdot qd ; Mdot = d/dt M(q + t qd)
    if float(np.linalg.norm(qd)) > 0:
        ctx.clause("coriolis_power")
        qdn = qd / max(1.0, float(np.max(np.abs(qd))))          # bounded step direction, rescaled afterwards
        sfac = max(1.0, float(np.max(np.abs(qd))))
        h = 1e-3
        # no sample of the difference quotient may put a joint value inside the exponential's cut-off band (0, 1e-6)
        for _try in range(6):
            if all(np.all((np.abs(q + t * qdn) == 0) | (np.abs(q + t * qdn) > 1e-5)) for t in (h, -h, h / 2, -h / 2)):
                break
            h *= 1.37

        def Mat(t):
            return np.asarray(mr.MassMatrix(q + t * qdn, Ml, Gl, S), dtype=float)
        D = lambda s: (Mat(s) - Mat(-s)) / (2 * s)
        Mdot = (4 * D(h / 2) - D(h)) / 3 * sfac
        lhs = float(qd @ c)
        rhs = 0.5 * float(qd @ Mdot @ qd)
        sc = max(1.0, float(np.linalg.norm(qd)) * float(np.linalg.norm(c)))
        ctx.err("coriolis_power", abs(lhs - rhs) / sc)
        if abs(lhs - rhs) > 1e-6 * sc:
            viol("coriolis_power", "coriolis_power", lhs=lhs, rhs=rhs)
    if chain["physical"]:
        ctx.clause("gravity_gradient")
        gradV = richardson_scalar_grad(lambda x: potential(chain, x, g), q, 1e-3)
        sc = max(1.0, float(np.linalg.norm(gradV)))
        e = float(np.linalg.norm(gf - gradV)) / sc
        ctx.err("gravity_gradient", e)
        if e > 1e-6:
            viol("gravity_gradient", "gravity_gradient", rel_err=e)


def energy_traj(chain, st, ctx, mr, case, arm=None):
    from scipy.integrate import solve_ivp
    n = chain["n"]
    S = np.ascontiguousarray(np.array(chain["S"]))
    Ml = [np.ascontiguousarray(np.array(m)) for m in chain["Mlist"]]
    Gl = [np.array(g) for g in chain["Glist"]]
    g = np.array(st["g"], dtype=float)
    q0 = np.array(st["q"], dtype=float)
    qd0 = np.array(st["qd"], dtype=float)
    qd0 = qd0 / max(1.0, float(np.max(np.abs(qd0)))) * 1.5

    def E(q, qd):
        M = np.asarray(mr.MassMatrix(q, Ml, Gl, S), dtype=float)
        return 0.5 * float(qd @ M @ qd) + potential(chain, q, g)

    def rhs(t, x):
        q, qd = x[:n], x[n:]
        qdd = mr.ForwardDynamics(q.copy(), qd.copy(), np.zeros(n), g, np.zeros(6), Ml, Gl, S)
        return np.concatenate([qd, np.asarray(qdd, dtype=float)])
    sol = solve_ivp(rhs, [0, 0.5], np.concatenate([q0, qd0]), rtol=1e-10, atol=1e-12, method="DOP853")
    ctx.clause("energy_conservation")
    if not sol.success:
        ctx.bump("energy", "integration_failed")
        return
    E0 = E(q0, qd0)
    E1 = E(sol.y[:n, -1], sol.y[n:, -1])
    Ms = np.asarray(mr.MassMatrix(q0, Ml, Gl, S), dtype=float)
    sc = max(1.0, abs(E0), 0.5 * float(qd0 @ Ms @ qd0), sum(np.array(G)[3, 3] for G in Gl) * float(np.linalg.norm(g)))
    ctx.err("energy_conservation", abs(E1 - E0) / sc)
    if abs(E1 - E0) > 1e-6 * sc:
        ctx.violation("energy_conservation", "energy_drift", {"E0": E0, "E1": E1, "steps": int(sol.t.size)}, case)
    if arm is not None and not case.get("reconfigure"):
        # the arm's own integrator (scipy RK45 at its default 1e-3 tolerance) against the accurate reference trajectory
        ctx.clause("arm.integrate")
        try:
            t, y = arm.integrateForwardDynamics(q0.copy(), qd0.copy(), np.zeros(n), 0.1, g.copy())
            y = np.asarray(y, dtype=float)
            ref = solve_ivp(rhs, [0, 0.1], np.concatenate([q0, qd0]), rtol=1e-10, atol=1e-12, method="DOP853").y[:, -1]
            e = float(np.max(np.abs(y[-1] - ref))) / max(1.0, float(np.max(np.abs(ref))))
            ctx.err("arm.integrate", e)
            if y.shape[1] != 2 * n or not (e <= 5e-3):
                ctx.violation("arm.integrate", "arm.integrate/end_state", {"rel_err": e, "shape": y.shape}, case)
            Ea = E(y[-1, :n], y[-1, n:])
            if abs(Ea - E0) > 5e-3 * sc:
                ctx.violation("arm.integrate", "arm.integrate/energy_drift", {"E0": E0, "E1": Ea}, case)
        except Exception:
            import traceback
            ctx.violation("arm.integrate", "arm.integrate/raises", {"exc": traceback.format_exc()[-400:]}, case)


def configure_arm(arm, chain, pattern, tm, ctx):
    """(Re-)describe the arm's links through the public setters: frames from the chain, inertias in one of four call patterns."""
    n = chain["n"]
    Ml = [np.array(m) for m in chain["Mlist"]]
    Gl = np.array([np.array(g) for g in chain["Glist"]])
    homes = []
    Mi = np.eye(4)
    for i in range(n):
        Mi = Mi @ Ml[i]
        homes.append(Mi.copy())
    arm.setOrigins(link_homes_global=[tm(h.copy()) for h in homes])
    masses = np.array([g[3, 3] for g in Gl])
    if pattern == 0:
        arm.setMassProperties(masses, [tm(m.copy()) for m in Ml], Gl.copy())
    elif pattern == 1:      # inertias given in a separate, later call
        arm.setMassProperties(masses, [tm(m.copy()) for m in Ml])
        arm.setMassProperties(box_spatial_links=Gl.copy())
    elif pattern == 2:      # inertias first, frames later
        arm.setMassProperties(box_spatial_links=Gl.copy())
        arm.setMassProperties(link_masses=masses, mass_grav_centers=[tm(m.copy()) for m in Ml])
    else:                   # a complete but different configuration first, then only what changes
        arm.setMassProperties(masses * 2, [tm(m.copy()) for m in Ml], Gl.copy() * 3.0)
        arm.setMassProperties(link_masses=masses, box_spatial_links=Gl.copy())
    ctx.cls("setter_pattern:%d" % pattern)


def evaluate_arm(arm, chain, st, ctx, mr, case, kind, stage):
    n = chain["n"]
    S = np.array(chain["S"])
    Ml = [np.array(m) for m in chain["Mlist"]]
    Gl = np.array([np.array(g) for g in chain["Glist"]])
    q, qd, qdd = (np.array(st[k], dtype=float) for k in ("q", "qd", "qdd"))
    g = np.array(st["g"], dtype=float)
    F = np.array(st["F"], dtype=float)
    tau_in = np.array(st["tau"], dtype=float)
    Mlc = [np.ascontiguousarray(m) for m in Ml]
    Sc = np.ascontiguousarray(S)
    tau_ref = np.asarray(mr.InverseDynamics(q.copy(), qd.copy(), qdd.copy(), g.copy(), F.copy(), Mlc, list(Gl), Sc), dtype=float)
    M_ref = np.asarray(mr.MassMatrix(q.copy(), Mlc, list(Gl), Sc), dtype=float)
    h_ref = np.asarray(mr.VelQuadraticForces(q.copy(), qd.copy(), Mlc, list(Gl), Sc), dtype=float) + \
        np.asarray(mr.GravityForces(q.copy(), g.copy(), Mlc, list(Gl), Sc), dtype=float)
    fd_ref = np.asarray(mr.ForwardDynamics(q.copy(), qd.copy(), tau_in.copy(), g.copy(), F.copy(), Mlc, list(Gl), Sc), dtype=float)
    cond = float(np.linalg.cond(M_ref))
    sfx = "" if stage == 0 else "/after_reconfiguration"

    def cmp(clause, fn, want, scale, rel=1e-8):
        ctx.clause(clause)
        try:
            got = np.asarray(fn(), dtype=float)
        except Exception as e:
            import traceback
            ctx.violation(clause, clause + "/raises/" + type(e).__name__ + sfx, {"exc": traceback.format_exc()[-400:], "kind": kind}, case)
            return
        if got.size != np.asarray(want).size:
            ctx.violation(clause, clause + "/shape" + sfx, {"got": got.shape, "want": np.asarray(want).shape}, case)
            return
        got = got.reshape(np.asarray(want).shape)
        e = float(np.linalg.norm(got - want)) / max(1.0, scale)
        ctx.err(clause, e)
        if not (e <= rel):
            ctx.violation(clause, clause + "/value" + sfx, {"rel_err": e, "kind": kind, "stage": stage}, case)

    sc = float(np.linalg.norm(tau_ref)) + float(np.linalg.norm(M_ref)) * float(np.linalg.norm(qdd))
    cmp("arm.inverseDynamics", lambda: arm.inverseDynamics(q.copy(), qd.copy(), qdd.copy(), g.copy(), F.reshape((6, 1)).copy())[0], tau_ref, sc)
    cmp("arm.inverseDynamicsEMR", lambda: arm.inverseDynamicsEMR(q.copy(), qd.copy(), qdd.copy(), g.copy(), F.copy()), tau_ref, sc)
    if n == 6:
        cmp("arm.inverseDynamicsC", lambda: arm.inverseDynamicsC(q.copy(), qd.copy(), qdd.copy(), g.copy(), F.reshape((6, 1)).copy())[0], tau_ref, sc)
        cmp("arm.inverseDynamicsC", lambda: arm.inverseDynamicsC(q.copy(), qd.copy(), qdd.copy(), g.copy(), F.reshape((6, 1)).copy())[1], M_ref,
            float(np.linalg.norm(M_ref)))
    cmp("arm.massMatrix", lambda: arm.massMatrix(q.copy()), M_ref, float(np.linalg.norm(M_ref)))
    cmp("arm.coriolisGravity", lambda: arm.coriolisGravity(q.copy(), qd.copy(), g.copy()), h_ref, float(np.linalg.norm(h_ref)))
    scf = float(np.linalg.norm(fd_ref))
    cmp("arm.forwardDynamics", lambda: arm.forwardDynamics(q.copy(), qd.copy(), tau_in.copy(), g.copy(), F.copy()), fd_ref, scf, 1e-8 * max(1.0, cond / 1e3))
    cmp("arm.forwardDynamicsE", lambda: arm.forwardDynamicsE(q.copy(), qd.copy(), tau_in.copy(), g.copy(), F.reshape((6, 1)).copy())[0], fd_ref, scf,
        1e-8 * max(1.0, cond / 1e3))
    # the tip wrench given as the library's own Wrench object (what the signatures announce)
    from basic_robotics.general import Wrench
    cmp("arm.inverseDynamicsEMR", lambda: arm.inverseDynamicsEMR(q.copy(), qd.copy(), qdd.copy(), g.copy(), Wrench(F.reshape((6, 1)).copy())), tau_ref, sc)
    cmp("arm.inverseDynamics", lambda: arm.inverseDynamics(q.copy(), qd.copy(), qdd.copy(), g.copy(), Wrench(F.reshape((6, 1)).copy()))[0], tau_ref, sc)
    # the same state / torque arrays handed to one implementation after the other, as a simulation loop does: an implementation that
    # writes into its arguments shows in the next one's answer
    q_s, qd_s, tau_s, g_s = q.copy(), qd.copy(), tau_in.copy(), g.copy()
    cmp("arm.forwardDynamics", lambda: arm.forwardDynamics(q_s, qd_s, tau_s, g_s, Wrench(F.reshape((6, 1)).copy())), fd_ref, scf, 1e-8 * max(1.0, cond / 1e3))
    cmp("arm.forwardDynamicsE", lambda: arm.forwardDynamicsE(q_s, qd_s, tau_s, g_s, Wrench(F.reshape((6, 1)).copy()))[0], fd_ref, scf,
        1e-8 * max(1.0, cond / 1e3))
    cmp("arm.forwardDynamics", lambda: arm.forwardDynamics(q_s, qd_s, tau_s, g_s, F.copy()), fd_ref, scf, 1e-8 * max(1.0, cond / 1e3))
    ctx.clause("arm.forwardDynamics")
    if not (np.array_equal(q_s, q) and np.array_equal(qd_s, qd) and np.array_equal(tau_s, tau_in) and np.array_equal(g_s, g)):
        ctx.violation("arm.forwardDynamics", "arm.forwardDynamics/arguments_overwritten" + sfx, {"kind": kind}, case)
    # defaulted arguments: gravity from the arm's own setting, no tip wrench, joint vector from the arm's state
    tau0_ref = np.asarray(mr.InverseDynamics(q.copy(), qd.copy(), qdd.copy(), g.copy(), np.zeros(6), Mlc, list(Gl), Sc), dtype=float)
    fd0_ref = np.asarray(mr.ForwardDynamics(q.copy(), qd.copy(), tau_in.copy(), g.copy(), np.zeros(6), Mlc, list(Gl), Sc), dtype=float)
    try:
        arm.setGrav(g.copy())
    except Exception as e:
        ctx.violation("arm.defaults", "arm.defaults/setGrav_raises", {"exc": repr(e)[:200]}, case)
        return
    sc0 = float(np.linalg.norm(tau0_ref)) + float(np.linalg.norm(M_ref)) * float(np.linalg.norm(qdd))
    cmp("arm.defaults", lambda: arm.inverseDynamics(q.copy(), qd.copy(), qdd.copy())[0], tau0_ref, sc0)
    cmp("arm.defaults", lambda: arm.inverseDynamicsEMR(q.copy(), qd.copy(), qdd.copy()), tau0_ref, sc0)
    cmp("arm.defaults", lambda: arm.forwardDynamics(q.copy(), qd.copy(), tau_in.copy()), fd0_ref, float(np.linalg.norm(fd0_ref)), 1e-8 * max(1.0, cond / 1e3))
    cmp("arm.defaults", lambda: arm.forwardDynamicsE(q.copy(), qd.copy(), tau_in.copy())[0], fd0_ref, float(np.linalg.norm(fd0_ref)), 1e-8 * max(1.0, cond / 1e3))
    if np.all(np.abs(q) <= 2 * PI):
        try:
            arm.FK(q.copy())
            cmp("arm.defaults", lambda: arm.massMatrix(), M_ref, float(np.linalg.norm(M_ref)))
        except Exception as e:
            ctx.violation("arm.defaults", "arm.defaults/raises", {"exc": repr(e)[:200]}, case)


def check_arm(chain, st, ctx, bm, mr, case, kind):
    """Arm configured through the public setters with frames/inertias consistent with the chain; then the *same object* is
    re-described (new link frames and inertias for the same joint screws and tool frame) and evaluated again."""
    tm = bm["tm"]
    n = chain["n"]
    S = np.array(chain["S"])
    Ml = [np.array(m) for m in chain["Mlist"]]
    Mtip = np.eye(4)
    for m in Ml:
        Mtip = Mtip @ m
    q_pts = np.zeros((3, n))
    for i in range(n):
        w, v = S[:3, i], S[3:, i]
        q_pts[:, i] = np.cross(w, v)
    arm = bm["Arm"](tm(), S.copy(), tm(Mtip.copy()), q_pts.copy(), S[:3, :].copy())
    arm.setJointProperties(np.full(n, -2 * PI), np.full(n, 2 * PI))
    configure_arm(arm, chain, case.get("setter_pattern", 0), tm, ctx)
    evaluate_arm(arm, chain, st, ctx, mr, case, kind, 0)
    for k, rc in enumerate(case.get("reconfigure", [])):
        ctx.cls("reconfigured")
        configure_arm(arm, rc["chain"], rc["setter_pattern"], tm, ctx)
        evaluate_arm(arm, rc["chain"], rc["state"], ctx, mr, case, kind, k + 1)
    return arm


def rechain(rng, chain):
    """Another description of a chain with the same joint screws and the same tool frame: new link frames, new inertias."""
    n = chain["n"]
    c2 = gen_chain(rng, n, chain["physical"])
    c2["S"] = chain["S"]
    Mtip = np.eye(4)
    for m in chain["Mlist"]:
        Mtip = Mtip @ np.array(m)
    Mi = np.eye(4)
    for m in c2["Mlist"][:n]:
        Mi = Mi @ np.array(m)
    c2["Mlist"][n] = (se3.inv(Mi) @ Mtip).tolist()
    return c2


def test6r_chain():
    L1, L2, L3, W = 4.5, 3.75, 3.75, 0.1
    d = armlib.test6r_desc()
    Tspace = [[0, 0, L1 / 2], [L2 / 2, 0, L1], [L2 + L3 / 2, 0, L1], [L2 + L3 + W / 2, 0, L1], [L2 + L3 + W + W / 2, 0, L1], [L2 + L3 + 2 * W + W / 2, 0, L1]]
    Ts = [se3.rp(np.eye(3), p) for p in Tspace]
    Mtip = se3.rp(np.eye(3), [L2 + L3 + 3 * W, 0, L1])
    Ml = [Ts[0]] + [se3.inv(Ts[i - 1]) @ Ts[i] for i in range(1, 6)] + [se3.inv(Ts[5]) @ Mtip]
    dims = np.array([[W, W, L1], [L2, W, W], [L3, W, W], [W, W, W], [W, W, W], [W, W, W]])
    masses = [20, 20, 20, 1, 1, 1]
    Gl = []
    for m, (l, w, hh) in zip(masses, dims):
        G = np.zeros((6, 6))
        G[:3, :3] = np.diag([m * (w * w + hh * hh) / 12, m * (l * l + hh * hh) / 12, m * (w * w + l * l) / 12])
        G[3:, 3:] = m * np.eye(3)
        Gl.append(G)
    return {"n": 6, "S": d["S"], "Mlist": [m.tolist() for m in Ml], "Glist": [g.tolist() for g in Gl], "physical": True}


def run_case(case, ctx, bm, mr):
    chain, st = case["chain"], case["state"]
    check_mr(chain, st, ctx, mr, case)
    arm = check_arm(chain, st, ctx, bm, mr, case, case.get("kind", "random"))
    if case.get("traj"):
        energy_traj(chain, st, ctx, mr, case, arm)


def run_shard(spec, ctx):
    bm = armlib.load_bm()
    from basic_robotics.modern_robotics_numba import mr
    rng = ctx.rng
    ntraj = int(spec.get("ntraj", 0))
    for k in range(int(spec["n"])):
        r = rng.random()
        if r < 0.15:
            chain, kind = test6r_chain(), "test6r"
        elif r < 0.4:
            chain, kind = gen_chain(rng, 6), "random6"
        else:
            chain, kind = gen_chain(rng), "random"
        st = gen_state(rng, chain["n"])
        case = {"chain": chain, "state": st, "kind": kind, "traj": bool(k < ntraj and chain["physical"]), "setter_pattern": int(rng.integers(4))}
        case["reconfigure"] = [{"chain": rechain(rng, chain), "setter_pattern": int(rng.integers(4)), "state": gen_state(rng, chain["n"])}
                               for _ in range(int(rng.choice([0, 1, 1, 2])))]
        if k < ntraj and not chain["physical"]:
            chain = gen_chain(rng, int(rng.integers(1, 5)), True)
            st = gen_state(rng, chain["n"])
            case = {"chain": chain, "state": st, "kind": "random", "traj": True}
        ctx.cls("kind:" + case["kind"])
        ctx.cls("n:%d" % chain["n"])
        ctx.case({"S": gen.quant(chain["S"], 1e-6)[:18], "q": gen.quant(st["q"], 1e-6), "qd": gen.quant(st["qd"], 1e-6)},
                 bool(chain["n"] >= 2 and np.linalg.norm(st["qd"]) > 0), sample_every=0)
        try:
            run_case(case, ctx, bm, mr)
        except Exception:
            import traceback
            ctx.violation("harness", "unexpected", {"exc": traceback.format_exc()[-800:]}, case)
    ctx.samples.append({"n": chain["n"], "kind": case["kind"], "state": st})


def replay(case, ctx):
    bm = armlib.load_bm()
    from basic_robotics.modern_robotics_numba import mr
    ctx.case(case["state"], True)
    run_case(case, ctx, bm, mr)
