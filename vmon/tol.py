"""Tolerance model (DESIGN section 4) - one place."""
import numpy as np

ABS5 = 5e-6          # the properties' absolute tolerance on unit-scale entries
REL9 = 1e-9          # relative tolerance on larger entries
CUT = 1e-6           # the library's NearZero threshold
BAND = 2e-6          # rotation vectors with 0 < |w| < BAND are in the cut-off band


def entry_tol(scale, in_band=False, d=0.0):
    """Tolerance for comparing entries whose natural scale is `scale`.

    in_band: some rotation vector of the case has norm in (0, BAND): the library
    legitimately drops a rotation of up to 1e-6 rad, which moves a point at distance
    d by up to 1e-6 d.
    """
    t = max(ABS5, REL9 * float(scale))
    if in_band:
        t = max(t, ABS5 * max(1.0, float(d)))
    return t


def maxabs(x):
    x = np.asarray(x, dtype=float)
    if x.size == 0:
        return 0.0
    return float(np.max(np.abs(x)))


def close(a, b, tol):
    a = np.asarray(a, dtype=float)
    b = np.asarray(b, dtype=float)
    if a.shape != b.shape:
        return False, float("inf")
    if not (np.all(np.isfinite(a)) and np.all(np.isfinite(b))):
        same = np.array_equal(np.isfinite(a), np.isfinite(b)) and np.array_equal(a[~np.isfinite(a)], b[~np.isfinite(b)])
        if not same:
            return False, float("inf")
        m = np.isfinite(a)
        e = maxabs(a[m] - b[m])
        return e <= tol, e
    e = maxabs(a - b)
    return e <= tol, e


def tm_sides_differ(t, d=0.0):
    """A published transform is ONE pose however it is read: distance between its matrix and the pose its six-vector describes,
    as (error, tolerance) - or None if the object cannot be read.  Tolerance: the exponential's cut-off (5e-6, times the lever d)."""
    from scipy.spatial.transform import Rotation
    try:
        M = np.asarray(t.gTM(), dtype=float)
        taa = np.asarray(t.gTAA(), dtype=float).reshape(-1)
    except Exception:
        return None
    if M.shape != (4, 4) or taa.shape != (6,) or not (np.all(np.isfinite(M)) and np.all(np.isfinite(taa))):
        return None
    R = Rotation.from_rotvec(taa[3:]).as_matrix()
    e = max(float(np.abs(R - M[:3, :3]).max()), float(np.abs(taa[:3] - M[:3, 3]).max()))
    return e, ABS5 * max(1.0, float(d), float(np.abs(M[:3, 3]).max()))
