"""Seeded, class-labelled generators.  No import of the tree under test."""
import math
import numpy as np

PI = math.pi

# angle classes: name -> sampler(rng)
ANGLE_CLASSES = [
    ("zero", lambda r: 0.0),
    ("1e-9", lambda r: 1e-9),
    ("1e-7", lambda r: 1e-7),
    ("0.9e-6", lambda r: 0.9e-6),
    ("cut-", lambda r: np.nextafter(1e-6, 0.0)),
    ("cut", lambda r: 1e-6),
    ("cut+", lambda r: np.nextafter(1e-6, 1.0)),
    ("1.1e-6", lambda r: 1.1e-6),
    ("band", lambda r: float(r.uniform(1e-7, 3e-6))),
    ("1e-5", lambda r: 1e-5),
    ("1e-3", lambda r: 1e-3),
    ("generic", lambda r: float(r.uniform(1e-3, PI - 1e-3))),
    ("generic2", lambda r: float(r.uniform(0.05, 3.0))),
    ("pi-1e-3", lambda r: PI - 1e-3),
    ("pi-1e-6", lambda r: PI - 1e-6),
    ("pi-1e-7", lambda r: PI - 1e-7),
    ("pi-1e-8", lambda r: PI - 1e-8),
    ("pi-1e-9", lambda r: PI - 1e-9),
    ("near_pi", lambda r: PI - 10 ** r.uniform(-9.5, -5)),
    ("pi", lambda r: PI),
    ("pi+1e-6", lambda r: PI + 1e-6),
    ("over_pi", lambda r: float(r.uniform(PI + 1e-3, 2 * PI - 1e-3))),
    ("2pi-1e-7", lambda r: 2 * PI - 1e-7),
    ("2pi", lambda r: 2 * PI),
]
ANGLE_NAMES = [a for a, _ in ANGLE_CLASSES]
ANGLE_SAFE = ["zero", "1e-9", "1e-7", "0.9e-6", "cut-", "cut", "cut+", "1.1e-6", "band", "1e-5", "1e-3",
              "generic", "generic2", "pi-1e-3"]      # angle <= pi - 1e-3

AXIS_CLASSES = ["+e1", "-e1", "+e2", "-e2", "+e3", "-e3", "plane_xy", "plane_yz", "plane_xz", "generic", "generic", "small_component"]


def axis(rng, cls):
    if cls[0] in "+-" and cls[1] == "e":
        v = np.zeros(3)
        v[int(cls[2]) - 1] = 1.0 if cls[0] == "+" else -1.0
        return v
    if cls.startswith("plane"):
        a = rng.uniform(0, 2 * PI)
        c, s = math.cos(a), math.sin(a)
        return {"plane_xy": np.array([c, s, 0.0]), "plane_yz": np.array([0.0, c, s]),
                "plane_xz": np.array([c, 0.0, s])}[cls]
    v = rng.normal(size=3)
    if cls == "small_component":        # almost in a coordinate plane: where pivoting on "not near zero" picks a badly scaled column
        v[int(rng.integers(3))] = rng.choice([-1.0, 1.0]) * 10 ** rng.uniform(-4.5, -2)
    return v / np.linalg.norm(v)


def angle(rng, cls):
    for n, f in ANGLE_CLASSES:
        if n == cls:
            return float(f(rng))
    raise KeyError(cls)


def pick(rng, seq):
    return seq[int(rng.integers(len(seq)))]


def rotvec(rng, angle_classes=None, return_cls=False):
    ac = pick(rng, angle_classes or ANGLE_NAMES)
    xc = pick(rng, AXIS_CLASSES)
    w = axis(rng, xc) * angle(rng, ac)
    if return_cls:
        return w, ac, xc
    return w


MAG_CLASSES = [("0", 0.0), ("1e-6", 1e-6), ("1", 1.0), ("10", 10.0), ("1e3", 1e3)]


def vec3(rng, maxmag=1e3, return_cls=False):
    opts = [(n, m) for n, m in MAG_CLASSES if m <= maxmag]
    n, m = opts[int(rng.integers(len(opts)))]
    if m == 0.0:
        v = np.zeros(3)
    else:
        v = rng.normal(size=3)
        v = v / np.linalg.norm(v) * m * rng.uniform(0.1, 1.0)
        if rng.random() < 0.15:
            k = int(rng.integers(3))
            e = np.zeros(3)
            e[k] = m
            v = e
    if return_cls:
        return v, n
    return v


def taa(rng, maxpos=10.0, angle_classes=None):
    """A library-style 6-vector (position, rotation vector)."""
    return np.concatenate([vec3(rng, maxpos), rotvec(rng, angle_classes or ANGLE_SAFE)])


def rand_unit(rng, n=3):
    v = rng.normal(size=n)
    return v / np.linalg.norm(v)


def quant(x, q=1e-9):
    """Quantised tuple used to hash numeric cases."""
    a = np.asarray(x, dtype=float).ravel()
    with np.errstate(invalid="ignore", over="ignore"):
        r = np.round(a / q)
    return [None if not np.isfinite(v) else int(v) for v in r]


def spd6(rng, physical=None):
    """6x6 symmetric positive definite spatial inertia."""
    if physical is None:
        physical = rng.random() < 0.5
    if physical:
        m = float(rng.uniform(0.1, 50.0))
        A = rng.normal(size=(3, 3))
        Ic = A @ A.T * rng.uniform(0.01, 1.0) + np.eye(3) * rng.uniform(0.01, 0.5)
        G = np.zeros((6, 6))
        G[:3, :3] = Ic
        G[3:, 3:] = m * np.eye(3)
        return G
    A = rng.normal(size=(6, 6))
    return A @ A.T + np.eye(6) * rng.uniform(0.5, 2.0)


def screw_axes(rng, n, prismatic_ok=True, scale=1.0):
    """6 x n matrix of unit screw axes (w, v): revolute w unit, v = -w x q; prismatic w=0, |v|=1."""
    S = np.zeros((6, n))
    for i in range(n):
        if prismatic_ok and rng.random() < 0.2:
            S[3:, i] = rand_unit(rng)
        else:
            w = rand_unit(rng) if rng.random() < 0.6 else axis(rng, pick(rng, AXIS_CLASSES[:6]))
            q = rng.uniform(-1, 1, size=3) * scale
            S[:3, i] = w
            S[3:, i] = -np.cross(w, q)
    return S
