"""Worker process: imports the tree under test, runs one shard of one property.

usage: python -m vmon.worker <PROP> <spec.json> <out_dir>
Writes <out_dir>/result.json (+ hashes.npy).  Never decides the verdict.
"""
import faulthandler
import json
import os
import sys
import time
import traceback

import numpy as np

from .common import h64, jdump, repo_root


class Ctx:
    MAX_STORED_PER_KEY = 5

    def __init__(self, prop, spec):
        self.prop = prop
        self.spec = spec
        self.tier = spec.get("tier", "quick")
        self.seed = int(spec.get("seed", 0))
        self.shard = int(spec.get("shard", 0))
        pnum = int(prop[1:])
        self.rng = np.random.Generator(np.random.PCG64([self.seed, pnum, self.shard]))
        self.evaluations = 0
        self.hashes = set()
        self.clauses = {}
        self.classes = {}
        self.samples = []
        self.violations = []
        self.viol_counts = {}
        self.inconclusive = []
        self.extra = {}
        self.notes = []
        self.t0 = time.time()
        self.budget_s = float(spec.get("budget_s", 1e9))

    # ---- coverage -----------------------------------------------------
    def case(self, desc, nontrivial=True, sample_every=0, sample=None):
        """Register one executed case; desc (hashable/JSON-able) identifies it, sample (optional) is the readable form."""
        self.evaluations += 1
        if nontrivial:
            self.hashes.add(h64(desc))
        if len(self.samples) < 4 or (sample_every and self.evaluations % sample_every == 0
                                     and len(self.samples) < 12):
            self.samples.append(desc if sample is None else sample)

    def case_id(self, ident, nontrivial=True):
        """Register a case identified by an integer that is unique per distinct case."""
        self.evaluations += 1
        if nontrivial:
            self.hashes.add(int(ident))

    def add_enumerated(self, n_eval, n_distinct_nontrivial):
        """Bulk registration for exhaustive enumerations (every case distinct by construction and
        enumerated exactly once over all shards)."""
        self.evaluations += int(n_eval)
        self.enum_distinct = getattr(self, "enum_distinct", 0) + int(n_distinct_nontrivial)

    def clause(self, name, n=1):
        self.last_clause = name
        self.clauses[name] = self.clauses.get(name, 0) + n

    def cls(self, name, n=1):
        self.classes[name] = self.classes.get(name, 0) + n

    def bump(self, group, name, n=1):
        g = self.extra.setdefault(group, {})
        g[name] = g.get(name, 0) + n

    def err(self, clause, e):
        """Track the largest error seen per clause (evidence only)."""
        g = self.extra.setdefault("max_err", {})
        try:
            e = float(e)
        except Exception:
            return
        if e == e and e > g.get(clause, -1.0):
            g[clause] = e

    def out_of_time(self):
        return time.time() - self.t0 > self.budget_s

    # ---- verdict material ---------------------------------------------
    def violation(self, clause, key, detail, case):
        """clause: oracle clause id; key: mechanism key used for known findings."""
        k = "%s|%s" % (clause, key)
        self.viol_counts[k] = self.viol_counts.get(k, 0) + 1
        if self.viol_counts[k] <= self.MAX_STORED_PER_KEY:
            self.violations.append({"clause": clause, "key": key, "detail": detail, "case": case})

    def inconc(self, reason):
        if reason not in self.inconclusive:
            self.inconclusive.append(reason)

    def result(self):
        return {
            "prop": self.prop, "shard": self.shard, "evaluations": self.evaluations,
            "clauses": self.clauses, "classes": self.classes, "samples": self.samples[:12],
            "violations": self.violations, "viol_counts": self.viol_counts,
            "inconclusive": self.inconclusive, "extra": self.extra, "notes": self.notes,
            "wall_s": time.time() - self.t0, "enum_distinct": getattr(self, "enum_distinct", 0),
        }


def import_target():
    """Import basic_robotics and assert it is the tree we were told to test."""
    root = repo_root()
    import basic_robotics
    f = os.path.abspath(basic_robotics.__file__)
    if not f.startswith(root + os.sep):
        raise RuntimeError("basic_robotics imported from %s, expected under %s" % (f, root))
    return basic_robotics


class Reach:
    """Which functions of the tree under test were entered during this shard (sys.monitoring PY_START, first shard of a run only).

    Interpreted code only: a kernel that runs compiled leaves no trace here (its callers do).  Evidence, never a verdict."""
    TOOL = 3

    def __init__(self, root):
        self.root = os.path.join(root, "basic_robotics") + os.sep
        self.counts = {}
        self.on = False

    def start(self):
        mon = getattr(sys, "monitoring", None)
        if mon is None:
            return
        try:
            mon.use_tool_id(self.TOOL, "vmon-reach")
        except ValueError:
            return
        counts, root, DISABLE = self.counts, self.root, mon.DISABLE

        def py_start(code, offset):
            fn = code.co_filename
            if not fn.startswith(root):
                return DISABLE
            k = fn[len(root):] + ":" + code.co_qualname
            counts[k] = counts.get(k, 0) + 1
        mon.register_callback(self.TOOL, mon.events.PY_START, py_start)
        mon.set_events(self.TOOL, mon.events.PY_START)
        self.on = True

    def stop(self, ctx):
        if not self.on:
            return
        mon = sys.monitoring
        mon.set_events(self.TOOL, 0)
        mon.register_callback(self.TOOL, mon.events.PY_START, None)
        mon.free_tool_id(self.TOOL)
        top = sorted(self.counts.items(), key=lambda kv: -kv[1])
        ctx.extra["reach_functions_entered"] = {"count": len(top), "calls": int(sum(v for _, v in top))}
        ctx.extra["reach_calls"] = {k: int(v) for k, v in top[:200]}


def main(argv):
    prop, spec_path, out_dir = argv[1], argv[2], argv[3]
    faulthandler.enable()
    with open(spec_path) as f:
        spec = json.load(f)
    ctx = Ctx(prop, spec)
    reach = Reach(repo_root())
    if int(spec.get("shard", 0)) == 0 and os.environ.get("VERIF_REACH", "1") != "0" and spec.get("replay") is None:
        reach.start()
    mod = __import__("vmon.props." + prop.lower(), fromlist=["x"])
    status = "ok"
    try:
        if spec.get("replay") is not None:
            mod.replay(spec["replay"], ctx)
        else:
            mod.run_shard(spec, ctx)
    except BaseException as e:  # harness error, not a verdict
        status = "harness_error"
        ctx.inconc("worker exception: %s: %s" % (type(e).__name__, e))
        ctx.notes.append(traceback.format_exc())
    try:
        reach.stop(ctx)
    except Exception as e:
        ctx.notes.append("reach recorder: %r" % e)
    res = ctx.result()
    res["status"] = status
    np.save(os.path.join(out_dir, "hashes.npy"), np.fromiter(ctx.hashes, dtype=np.int64, count=len(ctx.hashes)))
    tmp = os.path.join(out_dir, "result.json.tmp")
    with open(tmp, "w") as f:
        f.write(jdump(res))
    os.replace(tmp, os.path.join(out_dir, "result.json"))
    return 0


if __name__ == "__main__":
    sys.exit(main(sys.argv))
