"""Run the repository's own test-suite as a workload under the contract monitors of vmon/suite_monitors.py."""
import json
import os
import subprocess
import tempfile

from .common import PY, VERIF, repo_root


def run_under_monitors(ctx, prop, select=None, timeout_s=3000):
    """Child pytest over <root>/tests with the monitors of `prop` armed.  Folds the report into ctx.

    select: optional list of pytest node ids (replay of one test)."""
    root = repo_root()
    os.makedirs(os.path.join(VERIF, ".cache"), exist_ok=True)
    out = tempfile.mktemp(suffix=".suite.json", dir=os.path.join(VERIF, ".cache"))
    env = dict(os.environ)
    env["VERIF_SUITE_MONITORS"] = prop
    env["VERIF_SUITE_OUT"] = out
    cmd = [PY, "-m", "pytest", "-q", "-x" if False else "-q", "-p", "no:cacheprovider", "-p", "vmon.suite_monitors", "--timeout=900"]
    cmd += list(select) if select else ["tests"]
    try:
        r = subprocess.run(cmd, cwd=root, env=env, stdout=subprocess.PIPE, stderr=subprocess.STDOUT, text=True, timeout=timeout_s)
        tail = r.stdout[-400:]
    except subprocess.TimeoutExpired:
        ctx.inconc("suite under %s monitors: watchdog fired after %ds" % (prop, timeout_s))
        return None
    try:
        with open(out) as f:
            rep = json.load(f)
    except Exception:
        ctx.inconc("suite under %s monitors produced no report: %s" % (prop, tail))
        return None
    finally:
        if os.path.exists(out):
            os.remove(out)
    if rep.get("final", {}).get("error"):
        ctx.inconc("suite monitors: end-of-session check failed to run: " + rep["final"]["error"])
    pref = prop + ":"
    checked = {k: v for k, v in rep["checked"].items() if k.startswith(pref)}
    n = sum(checked.values())
    ctx.evaluations += n
    for k, v in checked.items():
        ctx.case(["suite", k], True, sample=None) if False else None
        ctx.hashes.add(hash(("suite", k)) & 0x7FFFFFFFFFFFFFFF)
    ctx.clause("suite_under_monitors", n)
    ctx.extra["suite"] = {"tests_run": rep["tests"], "monitored_calls_checked": n,
                          "calls_skipped_precondition": sum(v for k, v in rep["skipped_pre"].items() if k.startswith(pref)),
                          "calls_that_raised": sum(v for k, v in rep["raised"].items() if k.startswith(pref)),
                          "wrapped": len([x for x in rep["installed"] if x.startswith(pref)]),
                          "entry_points_reached": len(checked)}
    ctx.extra["suite_calls"] = checked
    for k, v in rep.get("final", {}).items():
        if k != "error":
            ctx.extra["suite"][k] = v
    for s in rep["samples"][:3]:
        if len(ctx.samples) < 12:
            ctx.samples.append({"suite_call": s})
    for v in rep["violations"]:
        if v["prop"] != prop:
            continue
        ctx.violation(v["clause"], v["key"], dict(v["detail"], test=v["test"]), {"suite_test": v["test"]})
        k = "%s|%s" % (v["clause"], v["key"])
    for k, c in rep["viol_counts"].items():
        p, clause, key = k.split("|", 2)
        if p == prop:
            ctx.viol_counts["%s|%s" % (clause, key)] = max(ctx.viol_counts.get("%s|%s" % (clause, key), 0), c)
    if rep["tests"] == 0 or n == 0:
        ctx.inconc("suite under %s monitors observed nothing (tests=%d, monitored calls=%d): %s" % (prop, rep["tests"], n, tail))
    return rep
