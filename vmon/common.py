"""Shared pieces of the harness that do NOT import the tree under test."""
import hashlib
import json
import os
import sys

VERIF = os.path.dirname(os.path.dirname(os.path.abspath(__file__)))
PY = os.environ.get("VERIF_PYTHON", "/venv/bin/python")
GUARD = "BASIC_ROBOTICS_VERIF"

JIT_SOURCES = [
    "basic_robotics/modern_robotics_numba/modern_high_performance.py",
    "basic_robotics/general/faser_high_performance.py",
]


def repo_root():
    return os.path.abspath(os.environ.get("VERIF_REPO_ROOT", "/repo"))


def jit_source_hash(root=None, extra=""):
    root = root or repo_root()
    h = hashlib.sha256()
    for rel in JIT_SOURCES:
        p = os.path.join(root, rel)
        try:
            with open(p, "rb") as f:
                h.update(f.read())
        except OSError:
            h.update(b"<missing>")
    h.update(extra.encode())
    return h.hexdigest()[:20]


def numba_cache_dir(root=None, extra=""):
    d = os.path.join(VERIF, ".cache", "numba", jit_source_hash(root, extra))
    os.makedirs(d, exist_ok=True)
    return d


def prune_caches(keep=6):
    """Bound disk use: keep the most recently used Numba cache directories."""
    base = os.path.join(VERIF, ".cache", "numba")
    try:
        ds = [os.path.join(base, x) for x in os.listdir(base)]
    except OSError:
        return
    ds = [d for d in ds if os.path.isdir(d)]
    ds.sort(key=lambda d: os.path.getmtime(d), reverse=True)
    import shutil
    for d in ds[keep:]:
        shutil.rmtree(d, ignore_errors=True)


def worker_env(root=None, extra_env=None, cache_tag=""):
    root = root or repo_root()
    env = dict(os.environ)
    env["PYTHONPATH"] = root + os.pathsep + VERIF
    env["VERIF_REPO_ROOT"] = root
    env["MPLBACKEND"] = "Agg"
    env["PYTHONHASHSEED"] = "0"
    env["PYTHONDONTWRITEBYTECODE"] = "1"
    env[GUARD] = "1"
    env.setdefault("OMP_NUM_THREADS", "1")
    env.setdefault("OPENBLAS_NUM_THREADS", "1")
    env.setdefault("MKL_NUM_THREADS", "1")
    env.setdefault("NUMBA_NUM_THREADS", "1")
    flags = cache_tag
    if extra_env:
        env.update(extra_env)
        flags += json.dumps(extra_env, sort_keys=True)
    env["NUMBA_CACHE_DIR"] = numba_cache_dir(root, flags)
    return env


def h64(obj):
    """Stable 63-bit hash of a JSON-able / bytes / str object."""
    if isinstance(obj, bytes):
        b = obj
    elif isinstance(obj, str):
        b = obj.encode()
    else:
        b = json.dumps(obj, sort_keys=True, default=_jd).encode()
    return int.from_bytes(hashlib.blake2b(b, digest_size=8).digest(), "big") >> 1


def _jd(o):
    import numpy as np
    if isinstance(o, np.ndarray):
        return o.tolist()
    if isinstance(o, (np.floating,)):
        return float(o)
    if isinstance(o, (np.integer,)):
        return int(o)
    if isinstance(o, (np.bool_,)):
        return bool(o)
    if isinstance(o, bytes):
        return o.hex()
    if isinstance(o, complex):
        return [o.real, o.imag]
    return repr(o)


def jdump(obj, **kw):
    return json.dumps(obj, default=_jd, **kw)


def eprint(*a):
    print(*a, file=sys.stderr, flush=True)
