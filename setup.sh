#!/bin/bash
# Offline setup: verifies the vendored reference, checks the interpreter, warms the Numba cache.
set -e
cd "$(dirname "$0")"
PY="${VERIF_PYTHON:-/venv/bin/python}"
mkdir -p .cache evidence
echo "0147b8635e55a77cb9d8bfa02396d20e5c9f63989a6a75b3ba9bec1002b964c7  vendor/modern_robotics_ref/core.py" | sha256sum -c -
"$PY" -m vmon.warm
echo "setup ok"
