#!/bin/bash
# Offline setup: verifies the vendored reference, checks the interpreter, warms the Numba caches.
set -e
cd "$(dirname "$0")"
PY="${VERIF_PYTHON:-/venv/bin/python}"
mkdir -p .cache evidence
echo "0147b8635e55a77cb9d8bfa02396d20e5c9f63989a6a75b3ba9bec1002b964c7  vendor/modern_robotics_ref/core.py" | sha256sum -c -
"$PY" -c "from vmon.oracle import se3, segbox; assert se3.selfcheck(200) < 1e-12 and segbox.selfcheck(300) == 0; print('oracle self-checks ok')"
"$PY" -m vmon.warm
# compile every kernel once in the three execution environments C17 uses (bounds-checked / JIT / interpreted); the default
# JIT cache is shared by all other checks.  Its verdict is irrelevant here.
"$PY" -m vmon.runner C17 --tier quick --no-evidence > .cache/setup_c17.log 2>&1 || true
tail -1 .cache/setup_c17.log
echo "setup ok"
